"""C15 helper: function specs, harness source, operand sets and the CPython reference.

A *spec* is a JSON-able dict describing one compiled one-operation function:
  kind   'bin' | 'aug' | 'cmpif' | 'un' | 'conv'
  op     operator text / conversion name
  ts     operand static types (1 or 2 names from TYPES)
  form   'vv' (both variables) | 'vl' (literal on the right) | 'lv' (literal on the left) | 'v' (unary/conversion)
  lit    literal source text for 'vl'/'lv'
  ret    declared return type
  name   function name in the harness module
Everything here is deterministic and independent of mypy/mypyc (pure Python).
"""
from __future__ import annotations

import math
import random
import struct
import warnings

FIXED = {
    "i64": (-(1 << 63), (1 << 63) - 1),
    "i32": (-(1 << 31), (1 << 31) - 1),
    "i16": (-(1 << 15), (1 << 15) - 1),
    "u8": (0, 255),
}
WIDTH = {"i64": 64, "i32": 32, "i16": 16, "u8": 8}
TYPES = ["int", "bool", "float", "i64", "i32", "i16", "u8"]
ARITH = ["+", "-", "*", "//", "%", "/", "**", "<<", ">>", "&", "|", "^"]
CMP = ["==", "!=", "<", "<=", ">", ">="]
FLOAT_OPS = ["+", "-", "*", "//", "%", "/", "**"]
FIXED_OPS = ["+", "-", "*", "//", "%", "<<", ">>", "&", "|", "^"]
K_STATEMENT = [7, 8, 15, 16, 31, 32, 62, 63, 64]
K_EXTRA = [30, 53, 61]
REPR_BOUNDARIES = [1 << 8, 1 << 15, 1 << 31, 1 << 62, 1 << 63]
FENCED: dict[str, int] = {}


def is_fixed(t: str) -> bool:
    return t in FIXED


def fits(t: str, v: int) -> bool:
    lo, hi = FIXED[t]
    return lo <= v <= hi


# ---------------------------------------------------------------- static result types

def res_type(op: str, lt: str, rt: str, lit: str | None = None, form: str = "vv") -> str | None:
    """Static type of `l op r` as mypy sees it with typeshed (None: combination not generated)."""
    if op in CMP:
        return "bool"
    f = [t for t in (lt, rt) if is_fixed(t)]
    if f:
        if op not in FIXED_OPS:
            return None
        if len(f) == 2 and lt != rt:
            return None  # mixing two native types is a compile-time error
        if "float" in (lt, rt):
            return None
        return f[0]
    if "float" in (lt, rt):
        if op not in FLOAT_OPS:
            return None
        return "float"
    # int / bool
    if op == "/":
        return "float"
    if op in ("&", "|", "^") and lt == "bool" and rt == "bool":
        return "bool"
    if op == "**":
        if form == "vl" and lit is not None and lit.lstrip("(").startswith("-"):
            return "float"
        return "int"
    return "int"


def un_res_type(op: str, t: str) -> str | None:
    if op == "not":
        return "bool"
    if t == "float":
        return None if op == "~" else "float"
    if is_fixed(t):
        return None if op == "abs" else t  # no __abs__ in the mypy_extensions stubs
    return "int"  # int and bool: -x +x ~x abs(x) are int


# conversions: (name, source type, declared return type, body template)
def conv_specs() -> list[dict]:
    out = []

    def add(op, src, ret, body):
        out.append({"kind": "conv", "op": op, "ts": [src], "form": "v", "lit": None, "ret": ret, "body": body})

    for src in TYPES:
        add("bool", src, "bool", "return bool(x)")
        add("truth", src, "bool", "if x:\n        return True\n    return False")
    for src in ["bool", "float", "i64", "i32", "i16", "u8", "int"]:
        add("int", src, "int", "return int(x)")
    for src in ["int", "bool", "i64", "i32", "i16", "u8", "float"]:
        add("float", src, "float", "return float(x)")
    for dst in FIXED:
        for src in ["int", "bool", "float", "i64", "i32", "i16", "u8"]:
            add(dst, src, dst, "return %s(x)" % dst)
        # implicit conversions (documented as equivalent to the explicit ones)
        add("implicit-" + dst, "int", dst, "return x")
        add("implicit-assign-" + dst, "int", dst, "y: %s = x\n    return y" % dst)
        add("implicit-int", dst, "int", "return x")
    return out


# ---------------------------------------------------------------- operand value sets

def int_boundary(extended: bool) -> list[int]:
    ks = K_STATEMENT + (K_EXTRA if extended else [])
    ds = (-2, -1, 0, 1, 2) if extended else (-1, 0, 1)
    s = {0, 1, -1, 2, -2, 3, -3} if extended else {0, 1, -1, 2, -2}
    s.update([(1 << 1100) + 1, -(1 << 1100) - 1])  # beyond the double range
    # in-band error sentinels of the unboxed representations (-113 for i64/i32/i16/float, 239 for u8):
    # a legitimate result equal to the sentinel must not be mistaken for an error
    s.update([-113, 113, -226, 226, -112, -114, 239, 478, 240, 238])
    for k in ks:
        for d in ds:
            s.add((1 << k) + d)
            s.add(-((1 << k) + d))
    return sorted(s)


def int_randoms(rnd: random.Random, n: int) -> list[int]:
    out = []
    for i in range(n):
        bits = rnd.choice([5, 12, 29, 40, 60, 61, 62, 63, 64, 65, 70, 100, 127, 128, 200, 300])
        v = rnd.getrandbits(bits) | (1 << (bits - 1))
        out.append(-v if rnd.random() < 0.5 else v)
    return out


def float_boundary() -> list[float]:
    vals = [-113.0, 113.0, -226.0, 226.0, 0.0, -0.0, 1.0, -1.0, 0.5, -0.5, 1.5, -1.5, 2.5, -2.5, 2.0, 3.0, -3.0, 0.1, -0.1, 1e-5, 7.25, -7.25,
            math.inf, -math.inf, math.nan,
            5e-324, -5e-324, 2.2250738585072014e-308, 2.225073858507201e-308, 1.7976931348623157e308, -1.7976931348623157e308,
            1e308, 1e154, 1.3407807929942597e154, 1e-200, 1e16, 1e22, 1e23, 123456789.987654321, -123456789.987654321, math.pi, -math.e]
    for k in [7, 8, 15, 16, 31, 32, 52, 53, 62, 63, 64, 1023]:
        b = math.ldexp(1.0, k)
        for v in (b, math.nextafter(b, 0.0), math.nextafter(b, math.inf)):
            vals.append(v)
            vals.append(-v)
    for k in [31, 32, 53, 63]:  # half-way neighbours (int(float) truncation, // and % fix-ups)
        vals.append(math.ldexp(1.0, k) + 0.5 if k < 52 else math.ldexp(1.0, k) + math.ldexp(1.0, k - 52))
        vals.append(-(math.ldexp(1.0, k) - 0.5) if k < 52 else -math.ldexp(1.0, k))
    seen, out = set(), []
    for v in vals:
        b = struct.pack("<d", v)
        if b not in seen:
            seen.add(b)
            out.append(v)
    return out


def values_for(t: str, ints: list[int], floats: list[float]) -> list:
    if t == "int":
        return ints
    if t == "bool":
        return [False, True]
    if t == "float":
        return floats
    lo, hi = FIXED[t]
    s = set(v for v in ints if lo <= v <= hi)
    s.update([lo, lo + 1, lo + 2, hi, hi - 1, hi - 2])
    return sorted(s)


def near_boundary(v) -> bool:
    """Non-triviality: value within +-2 of a representation boundary, or a float special."""
    if isinstance(v, float):
        if v != v or v in (math.inf, -math.inf) or v == 0.0 or abs(v) < 2.3e-308 or abs(v) > 1.7e308:
            return True
        if abs(v) > 1e300:
            return False
        if v != math.floor(v):
            return False
        v = int(v)
    if isinstance(v, bool):
        return False
    a = abs(v)
    for b in REPR_BOUNDARIES:
        if abs(a - b) <= 2:
            return True
    return False


# ---------------------------------------------------------------- literals

def int_literals() -> list[int]:
    return [0, 1, -1, 2, -2, 3, 7, 10, 64, 255, 256, (1 << 31) - 1, 1 << 31, -(1 << 31), 1 << 32,
            (1 << 62) - 1, 1 << 62, -(1 << 62), -(1 << 62) - 1, (1 << 63) - 1, 1 << 63, -(1 << 63), -(1 << 63) - 1,
            1 << 64, (1 << 64) + 1, -(1 << 64), 1234567890123456789012345678901234567890]


def fixed_literals(t: str) -> list[int]:
    lo, hi = FIXED[t]
    base = [0, 1, -1, 2, -2, 3, 7, 10, 100, 127, 128, 255, lo, lo + 1, hi, hi - 1]
    w = WIDTH[t]
    base += [1 << (w // 2), (1 << (w // 2)) - 1]
    out = []
    for v in base:
        if lo <= v <= hi and v not in out:
            out.append(v)
    return out


def float_literals() -> list[str]:
    return ["0.0", "-0.0", "1.0", "-1.0", "2.0", "0.5", "-2.5", "3.0", "1e308", "5e-324", "9007199254740993.0", "-1e-200",
            "0", "1", "-1", "2", "3", "9007199254740993", "18446744073709551617", "-4611686018427387905"]


def lit_text(v) -> str:
    if isinstance(v, str):
        return v
    return str(v)


def lit_value(text: str):
    return eval(text, {"__builtins__": {}})


# ---------------------------------------------------------------- spec enumeration

NONFIXED_COMBOS = [("int", "int"), ("int", "bool"), ("bool", "int"), ("bool", "bool"),
                   ("float", "float"), ("float", "int"), ("int", "float"), ("float", "bool"), ("bool", "float")]


def fixed_combos() -> list[tuple[str, str]]:
    out = []
    for f in FIXED:
        out += [(f, f), (f, "int"), ("int", f), (f, "bool"), ("bool", f)]
    return out


def vv_specs() -> list[dict]:
    out = []
    for lt, rt in NONFIXED_COMBOS + fixed_combos():
        for op in ARITH + CMP:
            ret = res_type(op, lt, rt)
            if ret is None:
                continue
            out.append({"kind": "bin", "op": op, "ts": [lt, rt], "form": "vv", "lit": None, "ret": ret})
            if op in CMP:
                out.append({"kind": "cmpif", "op": op, "ts": [lt, rt], "form": "vv", "lit": None, "ret": "bool"})
            elif aug_ok(op, lt, rt, ret):
                out.append({"kind": "aug", "op": op, "ts": [lt, rt], "form": "vv", "lit": None, "ret": ret})
    return out


def aug_ok(op: str, lt: str, rt: str, ret: str) -> bool:
    # `x op= y; return x` needs the result type to be assignable to x's declared type
    if ret == lt:
        return True
    return False


def un_specs() -> list[dict]:
    out = []
    for t in TYPES:
        for op in ["-", "+", "~", "abs", "not"]:
            ret = un_res_type(op, t)
            if ret is None:
                continue
            out.append({"kind": "un", "op": op, "ts": [t], "form": "v", "lit": None, "ret": ret})
    return out


def _add_lit(out: list, op: str, vt: str, side: str, lit_t: str, lit) -> None:
    lt, rt = (vt, lit_t) if side == "vl" else (lit_t, vt)
    text = lit_text(lit)
    ret = res_type(op, lt, rt, text, side)
    if ret is None:
        return
    if op == "**":
        lv = lit_value(text)
        if side == "vl" and isinstance(lv, int) and not (-3 <= lv <= 64):
            return
        if side == "lv" and vt in ("int", "bool") and lit_t == "int":
            return  # int literal ** int variable: exponent sign not static -> result type not static
        if side == "lv" and lit_t == "int" and lv < 0:
            return  # negative int literal ** float is statically complex
    if op == "<<" and side == "vl" and not is_fixed(vt) and lit_value(text) > 512:
        return
    if is_fixed(vt) and op in ("<<", ">>") and side == "vl" and not (0 <= lit_value(text) < WIDTH[vt]):
        return  # raw C shift: does not compile under -Werror / unspecified
    if vt == "u8" and op in ("//", "%") and side == "vl" and lit_value(text) == 0:
        FENCED["u8 // literal 0 and u8 % literal 0: generated C `x / 0` is rejected by gcc -Werror=div-by-zero (build failure, C05 territory)"] = 1
        return
    for kind in (["bin", "cmpif"] if op in CMP else ["bin", "aug"] if (side == "vl" and aug_ok(op, lt, rt, ret)) else ["bin"]):
        out.append({"kind": kind, "op": op, "ts": [vt], "form": side, "lit": "(%s)" % text if text.startswith("-") else text, "lit_t": lit_t, "ret": ret})


def lit_specs() -> list[dict]:
    """Every (operation x variable type x side x literal) one-literal function over the fixed literal sets."""
    out: list[dict] = []
    for side in ("vl", "lv"):
        for op in ARITH + CMP:
            for lit in int_literals():
                _add_lit(out, op, "int", side, "int", lit)
            for lit in [0, 1, -1, (1 << 62), 255]:
                _add_lit(out, op, "bool", side, "int", lit)
            for lit in float_literals():
                _add_lit(out, op, "float", side, "float" if ("." in lit or "e" in lit) else "int", lit)
            for lit in ["0.0", "1.5", "-2.5", "9007199254740992.0", "4611686018427387904.0", "1e19"]:
                _add_lit(out, op, "int", side, "float", lit)
            for f in FIXED:
                for lit in fixed_literals(f):
                    _add_lit(out, op, f, side, "int", lit)
    return out


def extra_lit_specs(ints: list[int], floats: list[float], fixed: dict[str, list[int]]) -> list[dict]:
    """One-literal functions for additional (seed-drawn) literals."""
    out: list[dict] = []
    fl = [repr(v) for v in floats if v == v and v not in (math.inf, -math.inf)]
    for side in ("vl", "lv"):
        for op in ARITH + CMP:
            for lit in ints:
                _add_lit(out, op, "int", side, "int", lit)
                _add_lit(out, op, "float", side, "int", lit)
            for lit in fl:
                _add_lit(out, op, "float", side, "float", lit)
                _add_lit(out, op, "int", side, "float", lit)
            for f in FIXED:
                for lit in fixed.get(f, []):
                    _add_lit(out, op, f, side, "int", lit)
    return out


def name_specs(specs: list[dict], prefix: str) -> list[dict]:
    for i, s in enumerate(specs):
        s["name"] = "%s%d" % (prefix, i)
    return specs


# ---------------------------------------------------------------- source

HEADER = "from mypy_extensions import i64, i32, i16, u8\n\n"


def expr_text(s: dict) -> str:
    op = s["op"]
    if s["form"] == "vv":
        return "x %s y" % op
    if s["form"] == "vl":
        return "x %s %s" % (op, s["lit"])
    if s["form"] == "lv":
        return "%s %s x" % (s["lit"], op)
    raise AssertionError(s)


def func_source(s: dict) -> str:
    k = s["kind"]
    n = s["name"]
    if k == "conv":
        return "def %s(x: %s) -> %s:\n    %s\n" % (n, s["ts"][0], s["ret"], s["body"])
    if k == "un":
        op = s["op"]
        e = "abs(x)" if op == "abs" else "not x" if op == "not" else "%sx" % op
        return "def %s(x: %s) -> %s:\n    return %s\n" % (n, s["ts"][0], s["ret"], e)
    params = "x: %s, y: %s" % tuple(s["ts"]) if s["form"] == "vv" else "x: %s" % s["ts"][0]
    if k == "bin":
        return "def %s(%s) -> %s:\n    return %s\n" % (n, params, s["ret"], expr_text(s))
    if k == "cmpif":
        return "def %s(%s) -> bool:\n    if %s:\n        return True\n    return False\n" % (n, params, expr_text(s))
    if k == "aug":
        rhs = "y" if s["form"] == "vv" else s["lit"]
        return "def %s(%s) -> %s:\n    x %s= %s\n    return x\n" % (n, params, s["ret"], s["op"], rhs)
    raise AssertionError(s)


def module_source(specs: list[dict]) -> str:
    return HEADER + "\n".join(func_source(s) for s in specs)


# ---------------------------------------------------------------- reference (CPython on Python numbers)

_BIN = {
    "+": lambda a, b: a + b, "-": lambda a, b: a - b, "*": lambda a, b: a * b, "//": lambda a, b: a // b,
    "%": lambda a, b: a % b, "/": lambda a, b: a / b, "**": lambda a, b: a ** b, "<<": lambda a, b: a << b,
    ">>": lambda a, b: a >> b, "&": lambda a, b: a & b, "|": lambda a, b: a | b, "^": lambda a, b: a ^ b,
    "==": lambda a, b: a == b, "!=": lambda a, b: a != b, "<": lambda a, b: a < b, "<=": lambda a, b: a <= b,
    ">": lambda a, b: a > b, ">=": lambda a, b: a >= b,
}
_UN = {"-": lambda a: -a, "+": lambda a: +a, "~": lambda a: ~a, "abs": abs, "not": lambda a: not a}


def fbits(v: float) -> str:
    if v != v:
        return "nan"
    return struct.pack(">d", v).hex()


def norm(v) -> tuple:
    """Comparable, JSON-able form of a returned value: (type name, exact value)."""
    t = type(v)
    if t is float:
        return ("float", fbits(v))
    if t is bool:
        return ("bool", int(v))
    if t is int:
        return ("int", v)
    return (t.__name__, repr(v)[:80])


def outcome(fn, args) -> tuple:
    try:
        return ("v",) + norm(fn(*args))
    except RecursionError:  # pragma: no cover
        raise
    except Exception as e:
        return ("e", type(e).__name__)


def operand_types(s: dict) -> list[str]:
    """Static types of (left, right) including the literal's."""
    if s["form"] == "vv":
        return list(s["ts"])
    if s["form"] == "vl":
        return [s["ts"][0], s["lit_t"]]
    if s["form"] == "lv":
        return [s["lit_t"], s["ts"][0]]
    return list(s["ts"])


def full_args(s: dict, args: tuple) -> tuple:
    if s["form"] == "vl":
        return (args[0], lit_value(s["lit"]))
    if s["form"] == "lv":
        return (lit_value(s["lit"]), args[0])
    return args


def expected(s: dict, args: tuple) -> tuple:
    """What the statement allows for this spec on these arguments.

    Returns one of
      ("eq", outcome)        compiled outcome must equal this outcome (value with type, or exception type)
      ("raise"[, alt])       compiled must raise some exception (conversion of an out-of-range int); for an
                             out-of-range int operand of a mixed native operation the exact answer `alt` is accepted too
      ("skip", reason)       statement leaves it unspecified
    `args` are the values passed to the compiled function (1 or 2).
    """
    k = s["kind"]
    with warnings.catch_warnings():
        warnings.simplefilter("ignore")
        if k == "conv":
            return _expected_conv(s, args[0])
        if k == "un":
            t = s["ts"][0]
            x = args[0]
            r = outcome(_UN[s["op"]], (x,))
            if is_fixed(t) and s["op"] != "not":
                return _fixed_result(t, r, s["op"])
            return ("eq", r)
        a, b = full_args(s, args)
        lt, rt = operand_types(s)
        op = s["op"]
        fx = [t for t in (lt, rt) if is_fixed(t)]
        if fx:
            f = fx[0]
            # the int/bool operand is coerced to the native type first (documented); out of range -> must raise
            for v, t in ((a, lt), (b, rt)):
                if not is_fixed(t) and not fits(f, int(v)):
                    # rejecting the operand is the documented behaviour; the exact CPython answer
                    # (when it is representable) would also satisfy the statement
                    r = outcome(_BIN[op], (int(a), int(b))) if not (op in ("<<", "**") and abs(int(b)) > 4096) else ("e", "skip")
                    alt = r if op in CMP else (_fixed_result(f, r, op)[1] if r[0] == "v" and fits(f, r[2]) else None)
                    return ("raise", alt)
            if op in ("<<", ">>") and not (0 <= b < WIDTH[f]):
                return ("skip", "fixed-width shift count outside 0..width-1")
            r = outcome(_BIN[op], (int(a), int(b)))
            if op in CMP:
                return ("eq", r)
            return _fixed_result(f, r, op)
        r = outcome(_BIN[op], (a, b))
        if r[0] == "v" and r[1] == "complex":
            return ("skip", "complex result")
        if r[0] == "e" and r[1] == "MemoryError":  # pragma: no cover
            return ("skip", "reference ran out of memory")
        if k == "aug" and s["ret"] == "bool" and r[0] == "v" and r[1] != "bool":  # pragma: no cover
            return ("skip", "not statically bool")
        return ("eq", r)


def _fixed_result(f: str, r: tuple, op: str) -> tuple:
    if r[0] == "e":
        return ("eq", r)
    v = r[2]
    if fits(f, v):
        return ("eq", ("v", "int", v))
    if f == "u8":
        return ("eq", ("v", "int", v % 256))
    return ("skip", "signed fixed-width overflow")


def _expected_conv(s: dict, x) -> tuple:
    op, src = s["op"], s["ts"][0]
    if op in ("bool", "truth"):
        return ("eq", outcome(bool, (x,)))
    if op in ("int", "implicit-int"):
        return ("eq", outcome(int, (x,)))
    if op == "float":
        return ("eq", outcome(float, (x,)))
    dst = op.split("-")[-1]
    assert dst in FIXED, s
    if src == "float":
        r = outcome(int, (x,))
        if r[0] == "e":
            return ("skip", "float special to fixed-width")  # no exact result exists; statement constrains int sources only
        if fits(dst, r[2]):
            return ("eq", r)
        return ("skip", "float out of range for fixed-width")
    v = int(x)
    if fits(dst, v):
        return ("eq", ("v", "int", v))
    if src in ("int", "bool"):
        return ("raise",)
    return ("skip", "narrowing between native types truncates (documented)")


def verdict(exp: tuple, got: tuple) -> bool:
    if exp[0] == "eq":
        return tuple(exp[1]) == tuple(got)
    if exp[0] == "raise":
        return got[0] == "e" or (len(exp) > 1 and exp[1] is not None and tuple(exp[1]) == tuple(got))
    return True


# ---------------------------------------------------------------- operand selection per spec

def arg_lists(s: dict, ints: list[int], floats: list[float], pow_exps: list[int]) -> list[list]:
    """Value lists for each *parameter* of the compiled function."""
    ts = s["ts"]
    lists = [values_for(t, ints, floats) for t in ts]
    k, op = s["kind"], s["op"]
    if k == "conv":
        dst = op.split("-")[-1]
        if dst in FIXED and ts[0] in FIXED:
            pass
        return lists
    if k == "un":
        return lists
    lt, rt = operand_types(s)
    fx = [t for t in (lt, rt) if is_fixed(t)]
    # parameter index of the right operand (None when it is the literal)
    ri = 1 if s["form"] == "vv" else (0 if s["form"] == "lv" else None)
    li = 0 if s["form"] in ("vv", "vl") else None
    if op == "**":
        if ri is not None:
            if rt in ("int", "bool"):
                lists[ri] = [v for v in lists[ri] if isinstance(v, bool)] if rt == "bool" else list(pow_exps)
        if li is not None and lt == "int" and s["form"] == "vl" and abs(lit_value(s["lit"])) > 8:
            lists[li] = [v for v in lists[li] if abs(v) <= (1 << 65)]
    if op == "<<" and not fx:
        if ri is not None and rt == "int":
            lists[ri] = [v for v in lists[ri] if v <= 512]
        if s["form"] == "lv" and abs(lit_value(s["lit"])) > 0 and rt == "int":
            pass
    if fx and ri is not None and op in ("<<", ">>"):
        # every count 0..width-1 (the specified region) plus a few outside it (skipped or must-raise, counted)
        w = WIDTH[fx[0]]
        if rt == "int":
            lists[ri] = sorted(set(list(range(0, w)) + [v for v in lists[ri] if not (0 <= v < w)][:6] + [-1, w, w + 1]))
        elif rt != "bool":
            lo, hi = FIXED[rt]
            lists[ri] = sorted(set(v for v in list(range(0, w)) + [-1, w, w + 1, lo, hi] if lo <= v <= hi))
    if fx:
        f = fx[0]
        lo, hi = FIXED[f]
        for i, t in enumerate(ts):
            if t == "int" and not (op in ("<<", ">>") and i == ri):
                # in-range values plus a few out-of-range ones (must be rejected by the implicit conversion)
                inr = [v for v in lists[i] if lo <= v <= hi]
                outr = [lo - 1, hi + 1, lo - (1 << 64), hi + (1 << 64), 1 << 200, -(1 << 200)]
                if f != "i64":
                    outr += [1 << 62, 1 << 63, -(1 << 63) - 1, (1 << 64) + 5]
                lists[i] = inr + outr
    return lists
