"""C08 - the type lattice obeys its laws.

Universe: types read from a real build of a fixture module (vp/props/c08_universe.py).
Depth <=1: all pairs, all triples (through the boolean relation matrix).  Deeper:
Hypothesis recursive composition around universe members.  Laws are the oracle.
Cache independence: every query answered on cold caches and again after
Hypothesis-drawn sequences of differently-flagged queries.
"""
from __future__ import annotations

import contextlib
import gc
import io
import itertools
import os

from vp.common import Run, chash, pmap
from vp import mypyrun

LEVEL = "exploration"

_U = None  # per-process universe cache


def build_universe():
    """Returns (names, types, meta) - built once per process."""
    global _U
    if _U is not None:
        return _U
    import mypy.build
    from mypy.build import BuildSource
    from mypy.options import Options
    from mypy.nodes import Var, FuncDef, OverloadedFuncDef, Decorator
    from vp.props.c08_universe import SOURCE, FUNCS

    extra = "\nv_any: Any\nv_list_any: list[Any]\nv_call_any: Callable[..., int]\nv_type_bare: type\nv_tup_any: tuple[Any, ...]\n"
    opts = Options()
    opts.incremental = True
    opts.cache_dir = os.path.join(mypyrun.WORK, "cache-c08-%s-%d" % (mypyrun.tree_id(), os.getpid() % 32))
    opts.show_traceback = True
    opts.preserve_asts = True
    opts.allow_empty_bodies = True
    buf = io.StringIO()
    with contextlib.redirect_stderr(buf), contextlib.redirect_stdout(buf):
        res = mypy.build.build([BuildSource(None, "univ", SOURCE + extra)], opts)
    errs = [e for e in res.errors if ": error:" in e]
    if errs:
        raise RuntimeError("universe fixture has errors: %s" % errs[:5])
    names, types = [], []
    tbl = res.files["univ"].names
    for n, sym in tbl.items():
        node = sym.node
        if n.startswith("v_") and isinstance(node, Var) and node.type is not None:
            names.append(n)
            types.append(node.type)
    for fn in FUNCS:
        node = tbl[fn].node
        t = node.type if not isinstance(node, Decorator) else node.var.type
        assert t is not None, fn
        names.append(fn)
        types.append(t)
    _U = (names, types, res)
    return _U


def has_any(t) -> bool:
    from mypy.types import BoolTypeQuery, ANY_STRATEGY, AnyType, get_proper_type
    from mypy.type_visitor import BoolTypeQuery as _B  # noqa

    class Q(BoolTypeQuery):
        def __init__(self):
            super().__init__(ANY_STRATEGY)

        def visit_any(self, t):
            return True

        def visit_instance(self, t):
            # bare `type` means type[Any] (implicit Any)
            if t.type.fullname == "builtins.type" and not t.args:
                return True
            return super().visit_instance(t)

        def visit_tuple_type(self, t):
            # the synthesized fallback (tuple[Any, ...] for variadic tuples) is not part of the type's meaning
            return self.query_types(t.items)

        def visit_typeddict_type(self, t):
            return self.query_types(list(t.items.values()))

        def visit_type_alias_type(self, t):
            # recursive aliases: look at args only (alias body inspected once below)
            return self.query_types(t.args)

    q = Q()
    if t.accept(q):
        return True
    # one level of alias expansion
    from mypy.types import TypeAliasType

    if isinstance(t, TypeAliasType) and t.alias is not None:
        try:
            return bool(t.alias.target.accept(Q()))
        except RecursionError:
            return True
    return False


def kind(t) -> str:
    from mypy import types as T

    p = T.get_proper_type(t)
    if isinstance(p, T.Instance):
        info = p.type
        if info.is_protocol:
            if "__call__" in info.protocol_members:
                return "CallbackProtocol"
            return "GenericProtocol" if p.args else "Protocol"
        if info.is_enum:
            return "Enum"
        if info.fullname.startswith("builtins."):
            return "Builtin[%d]" % len(p.args)
        return "GenericInstance" if p.args else "Instance"
    if isinstance(p, T.CallableType):
        if p.is_type_obj():
            return "TypeObj"
        if p.variables:
            return "GenericCallable"
        if p.is_ellipsis_args:
            return "EllipsisCallable"
        return "Callable"
    if isinstance(p, T.Overloaded):
        return "Overloaded"
    if isinstance(p, T.TupleType):
        if p.partial_fallback.type.fullname != "builtins.tuple":
            return "NamedTuple"
        if any(isinstance(i, T.UnpackType) for i in p.items):
            return "VariadicTuple"
        return "Tuple"
    if isinstance(p, T.TypedDictType):
        return "TypedDict"
    if isinstance(p, T.LiteralType):
        return "Literal"
    if isinstance(p, T.TypeType):
        return "TypeType"
    if isinstance(p, T.NoneType):
        return "None"
    if isinstance(p, T.UninhabitedType):
        return "Never"
    if isinstance(p, T.UnionType):
        return "Union"
    if isinstance(p, T.AnyType):
        return "Any"
    return type(p).__name__


def tstr(t) -> str:
    try:
        return str(t)
    except Exception as e:  # pragma: no cover
        return "<unprintable %s>" % type(e).__name__


def q_sub(s, t, **kw) -> bool | str:
    from mypy.subtypes import is_subtype

    try:
        return bool(is_subtype(s, t, **kw))
    except Exception as e:
        return "raises %s" % type(e).__name__


def q_psub(s, t, **kw) -> bool | str:
    from mypy.subtypes import is_proper_subtype

    try:
        return bool(is_proper_subtype(s, t, **kw))
    except Exception as e:
        return "raises %s" % type(e).__name__


class _Skip(Exception):
    pass


def pair_laws(s, t, joinmeet: bool = True):
    """Evaluate all pair laws on (s, t). Returns list of (law, detail)."""
    from mypy.join import join_types
    from mypy.meet import meet_types
    from mypy.typeops import make_simplified_union
    from mypy.types import UnionType

    out = []
    sub = q_sub(s, t)
    psub = q_psub(s, t)
    if psub is True and sub is not True:
        out.append(("proper-implies-subtype", "is_proper_subtype=True is_subtype=%s" % sub))
    for nm, a, b in ((("join", s, t),) if joinmeet else ()):
        try:
            j = join_types(a, b)
        except Exception as e:
            out.append(("join-raises-%s" % type(e).__name__, repr(e)[:200]))
            continue
        r1, r2 = q_sub(a, j), q_sub(b, j)
        if r1 is not True or r2 is not True:
            out.append(("join-upper-bound", "join=%s ; s<:join=%s t<:join=%s" % (tstr(j), r1, r2)))
    try:
        if not joinmeet:
            raise _Skip()
        m = meet_types(s, t)
        r1, r2 = q_sub(m, s), q_sub(m, t)
        if r1 is not True or r2 is not True:
            out.append(("meet-lower-bound", "meet=%s ; meet<:s=%s meet<:t=%s" % (tstr(m), r1, r2)))
    except _Skip:
        pass
    except Exception as e:
        out.append(("meet-raises-%s" % type(e).__name__, repr(e)[:200]))
    # union simplification, this order (the mirrored pair covers the other permutation)
    try:
        u = UnionType([s, t])
        su = make_simplified_union([s, t])
        r1, r2 = q_sub(su, u), q_sub(u, su)
        if r1 is not True or r2 is not True:
            out.append(("union-simplify-equivalent", "simplified=%s ; simp<:union=%s union<:simp=%s" % (tstr(su), r1, r2)))
    except Exception as e:
        out.append(("union-simplify-raises-%s" % type(e).__name__, repr(e)[:200]))
    return sub, psub, out


def eval_rows(arg):
    """Worker: rows [lo, hi) of the universe against all columns."""
    lo, hi = arg
    names, types, _ = build_universe()
    n = len(types)
    from mypy.typestate import type_state

    res = []
    for i in range(lo, hi):
        row_sub, row_psub, viol = [], [], []
        for j in range(n):
            sub, psub, out = pair_laws(types[i], types[j])
            row_sub.append(sub is True)
            row_psub.append(psub is True)
            if sub not in (True, False) or psub not in (True, False):
                out.append(("subtype-raises", "is_subtype=%s is_proper_subtype=%s" % (sub, psub)))
            for law, det in out:
                viol.append((j, law, det))
        res.append((i, row_sub, row_psub, viol))
    gc.collect()
    return res


def signature(law: str, ks: str, kt: str) -> str:
    a, b = sorted([ks, kt]) if law.startswith(("join", "meet", "union")) else (ks, kt)
    return "%s|%s|%s" % (law, a, b)


# ---------------------------------------------------------------- cache independence

FLAG_SETS = [
    {},
    {"ignore_promotions": True},
    {"ignore_pos_arg_names": True},
    {"ignore_declared_variance": True},
    {"always_covariant": True},
    {"ignore_type_params": True},
    {"proper": True},
    {"proper": True, "ignore_promotions": True},
    {"proper": True, "erase_instances": True},
    {"proper": True, "keep_erased_types": True},
]


def query(types, i, j, fs):
    kw = {k: v for k, v in fs.items() if k != "proper"}
    return q_psub(types[i], types[j], **kw) if fs.get("proper") else q_sub(types[i], types[j], **kw)


def eval_cache_seq(arg):
    """Worker: a list of (i, j, flagset_index) queries; answer cold (reset before each),
    then answer the whole sequence warm in the given order, then in reversed order."""
    seq = arg
    names, types, _ = build_universe()
    from mypy.typestate import type_state

    cold = []
    for i, j, f in seq:
        type_state.reset_all_subtype_caches()
        cold.append(query(types, i, j, FLAG_SETS[f]))
    bad = []
    type_state.reset_all_subtype_caches()
    for order in (range(len(seq)), reversed(range(len(seq))), range(len(seq))):
        for k in order:
            i, j, f = seq[k]
            got = query(types, i, j, FLAG_SETS[f])
            if got != cold[k]:
                bad.append((seq[k], cold[k], got))
    return len(seq) * 4, bad


# ---------------------------------------------------------------- deep types

def eval_deep(arg):
    """Worker: Hypothesis-built deep types around universe members; laws as oracle."""
    seed, n_examples, clean_idx = arg
    import hypothesis
    from hypothesis import given, settings, strategies as st, HealthCheck
    from mypy import types as T

    names, types, res = build_universe()
    tbl = res.files["univ"].names
    builtins = res.files["builtins"].names
    list_info = builtins["list"].node
    tuple_info = builtins["tuple"].node
    func_fallback = T.Instance(builtins["function"].node, [])
    obj = T.Instance(builtins["object"].node, [])
    co_info = tbl["Co"].node
    contra_info = tbl["Contra"].node
    inv_info = tbl["Inv"].node
    from mypy.nodes import ARG_POS

    base = st.sampled_from(clean_idx).map(lambda i: types[i])

    def wrap(children):
        return st.one_of(
            st.lists(children, min_size=2, max_size=3).map(lambda xs: T.UnionType(list(xs))),
            children.map(lambda x: T.UnionType([x, T.NoneType()])),
            children.map(lambda x: T.Instance(list_info, [x])),
            children.map(lambda x: T.Instance(co_info, [x])),
            children.map(lambda x: T.Instance(contra_info, [x])),
            children.map(lambda x: T.Instance(inv_info, [x])),
            st.lists(children, min_size=1, max_size=3).map(lambda xs: T.TupleType(list(xs), T.Instance(tuple_info, [obj]))),
            children.map(lambda x: T.Instance(tuple_info, [x])),
            st.tuples(st.lists(children, max_size=2), children, st.lists(children, max_size=2)).map(
                lambda a: T.TupleType(list(a[0]) + [T.UnpackType(T.Instance(tuple_info, [a[1]]))] + list(a[2]), T.Instance(tuple_info, [obj]))
            ),
            st.tuples(st.lists(children, max_size=2), children).map(
                lambda ar: T.CallableType(list(ar[0]), [ARG_POS] * len(ar[0]), [None] * len(ar[0]), ar[1], func_fallback)
            ),
        )

    deep = st.recursive(base, wrap, max_leaves=6)
    results = {"n": 0, "viol": [], "nontriv": [], "labels": {}, "samples": []}

    def lab(k):
        results["labels"][k] = results["labels"].get(k, 0) + 1

    @hypothesis.seed(seed)
    @settings(max_examples=n_examples, database=None, deadline=None, suppress_health_check=list(HealthCheck), phases=[hypothesis.Phase.generate])
    @given(deep, deep, deep)
    def t(s, t_, u):
        results["n"] += 1
        for x in (s, t_, u):
            r = q_sub(x, x)
            if r is not True:
                results["viol"].append(("reflexivity", tstr(x), "", kind(x), kind(x), "is_subtype(t,t)=%s" % r))
        # meet/join of generic instances combine type arguments without regard to variance
        # (base-level known findings on Contra[...]); deep pairs that contain the contravariant
        # wrapper are therefore excluded from the join/meet laws (counted), not from the others
        jm = "Contra[" not in tstr(s) + tstr(t_)
        if not jm:
            lab("deep_joinmeet_excluded_contravariant_wrapper")
        sub, psub, out = pair_laws(s, t_, jm)
        anyp = has_any(s) or has_any(t_)
        if anyp:
            lab("deep_pairs_with_Any_component")
        for law, det in out:
            if anyp and law in ("join-upper-bound", "meet-lower-bound"):
                results["viol"].append((law, tstr(s), tstr(t_), "Any-component", "Any-component", det))
            else:
                results["viol"].append((law, tstr(s), tstr(t_), kind(s), kind(t_), det))
        if kind(s) != kind(t_) or tstr(s) != tstr(t_):
            lab("deep_pairs_distinct")
            results["nontriv"].append(chash([tstr(s), tstr(t_)]))
        if sub is True:
            lab("deep_subtype_true")
        # transitivity
        if not (has_any(s) or has_any(t_) or has_any(u)):
            st_, tu = q_sub(s, t_), q_sub(t_, u)
            if st_ is True and tu is True:
                lab("deep_transitive_chains")
                su = q_sub(s, u)
                if su is not True:
                    results["viol"].append(("transitivity", tstr(s), tstr(t_) + "  <:  " + tstr(u), kind(s), kind(u), "s<:t and t<:u but s<:u=%s" % su))
        if results["n"] % 400 == 60:
            results["samples"].append({"sub": "deep", "s": tstr(s), "t": tstr(t_), "is_subtype": sub, "is_proper_subtype": psub})

    t()
    gc.collect()
    return results


# ----------------------------------------------------------------

def replay(run: Run, case: dict, origin: str | None = None) -> bool:
    before = len(run.violations)
    names, types, _ = build_universe()
    idx = {n: i for i, n in enumerate(names)}
    if case["sub"] == "pair":
        i, j = idx[case["s"]], idx[case["t"]]
        sub, psub, out = pair_laws(types[i], types[j])
        run.count()
        for law, det in out:
            run.report(signature(law, kind(types[i]), kind(types[j])), case, "%s on (%s, %s): %s" % (law, case["s"], case["t"], det), instance="%s,%s" % (case["s"], case["t"]))
    elif case["sub"] == "triple":
        a, b, c = (types[idx[case[k]]] for k in ("s", "t", "u"))
        run.count()
        if q_sub(a, b) is True and q_sub(b, c) is True and q_sub(a, c) is not True:
            run.report("transitivity|%s|%s|%s" % (kind(a), kind(b), kind(c)), case, "transitivity fails on %s <: %s <: %s" % (case["s"], case["t"], case["u"]))
    return len(run.violations) == before


def run(run: Run) -> None:
    q = run.tier == "quick"
    names, types, _ = build_universe()
    n = len(types)
    run.label("universe_types", n)
    run.rule = (
        "universe of %d types read from a real build (classes with diamond inheritance, in/co/contravariant generics, protocols incl. callback/recursive/generic, "
        "callables of all arg kinds, generic and overloaded functions, fixed/variadic tuples, NamedTuple, TypedDict variants, literals, enums, type[], None, Never, unions, recursive aliases). "
        "All ordered pairs: proper=>subtype, join upper bound, meet lower bound, union simplification equivalence; reflexivity on all; transitivity on ALL Any-free triples via the relation matrix; "
        "Hypothesis deep types (Union/Optional/list/Co/Contra/Inv/tuple/Callable wrappers, <=6 leaves) for the same laws; cache independence: cold answer == warm answer after differently flagged queries. "
        "Non-trivial: pairs of different kind cells whose answer is not decided by identity/object/Never; distinct s<:t<:u chains." % n
    )
    run.assumptions = ["str(type) identifies a type for de-duplication of deep cases", "types containing Any (explicit or implicit) are excluded from transitivity as the statement says"]
    kinds = [kind(t) for t in types]
    anyf = [has_any(t) for t in types]
    # ---- base level, exhaustive
    step = max(1, n // 32)
    chunks = [(lo, min(n, lo + step)) for lo in range(0, n, step)]
    M = [[False] * n for _ in range(n)]
    tainted_join_meet: set[int] = set()
    base_fail: list = []
    for res in pmap(eval_rows, chunks, recycle=None):
        for i, row_sub, row_psub, viol in res:
            M[i] = row_sub
            for j in range(n):
                run.count()
                if i != j and kinds[i] != kinds[j] and kinds[i] not in ("Never",) and names[j] != "v_obj" and not anyf[i] and not anyf[j]:
                    run.nontriv(chash([names[i], names[j]]))
            for j, law, det in viol:
                tainted_join_meet.update((i, j))
                base_fail.append([signature(law, kinds[i], kinds[j]), names[i], names[j]])
                run.report(signature(law, kinds[i], kinds[j]), {"sub": "pair", "s": names[i], "t": names[j]}, "%s fails for s=%s [%s], t=%s [%s]: %s" % (law, names[i], tstr(types[i]), names[j], tstr(types[j]), det), instance="%s,%s" % (names[i], names[j]))
    for i in range(n):
        run.count()
        if not M[i][i]:
            run.report("reflexivity|%s" % kinds[i], {"sub": "pair", "s": names[i], "t": names[i]}, "is_subtype(t, t) is False for %s" % tstr(types[i]))
    # transitivity over all Any-free triples through bitsets
    masks = [sum(1 << j for j in range(n) if M[i][j] and not anyf[j]) for i in range(n)]
    chains = 0
    for i in range(n):
        if anyf[i]:
            continue
        for j in range(n):
            if i == j or anyf[j] or not M[i][j]:
                continue
            missing = masks[j] & ~masks[i]
            chains += bin(masks[j]).count("1")
            if missing:
                for k in range(n):
                    if missing >> k & 1:
                        run.report(
                            "transitivity|%s|%s|%s" % (kinds[i], kinds[j], kinds[k]),
                            {"sub": "triple", "s": names[i], "t": names[j], "u": names[k]},
                            "%s <: %s and %s <: %s but not %s <: %s  (%s ; %s ; %s)" % (names[i], names[j], names[j], names[k], names[i], names[k], tstr(types[i]), tstr(types[j]), tstr(types[k])),
                        )
    run.count(n * n)  # triples are decided from the matrix: n^2 subset tests cover n^3 triples
    run.label("triples_covered", n * n * n)
    run.label("subtype_chains_checked", chains)
    run.extra["base_level_law_failures"] = base_fail
    run.sample({"sub": "pair", "s": names[3] + ": " + tstr(types[3]), "t": names[9] + ": " + tstr(types[9]), "is_subtype": M[3][9]})
    run.sample({"sub": "matrix", "true_entries": sum(sum(1 for x in r if x) for r in M), "size": n * n})
    # ---- cache independence
    import random

    rnd = random.Random(run.seed)
    nseq = 64 if q else 1600
    seqs = []
    # pairs of the same kind cell (same generic class, tuples, callables ...) are where a flag can change the answer
    by_kind: dict[str, list[int]] = {}
    for i, k in enumerate(kinds):
        by_kind.setdefault(k, []).append(i)
    rel_kinds = sorted(k for k, v in by_kind.items() if len(v) >= 2)
    for _ in range(nseq):
        pairs = []
        for _p in range(14):
            if rnd.random() < 0.7:
                grp = by_kind[rnd.choice(rel_kinds)]
                pairs.append((rnd.choice(grp), rnd.choice(grp)))
            else:
                pairs.append((rnd.randrange(n), rnd.randrange(n)))
        sq = [(i, j, f) for (i, j) in pairs for f in range(len(FLAG_SETS))]  # every pair under every flag set
        rnd.shuffle(sq)
        seqs.append(sq)
    for (cnt, bad), sq in zip(pmap(eval_cache_seq, seqs, recycle=None), seqs):
        run.count(cnt)
        run.label("cache_queries", cnt)
        for (i, j, f), cold, got in bad:
            run.report(
                "cache-dependence|%s" % ",".join(sorted(FLAG_SETS[f])) or "default",
                {"sub": "cache", "s": names[i], "t": names[j], "flags": FLAG_SETS[f]},
                "query (%s, %s, %s): cold caches -> %s, warm caches -> %s" % (names[i], names[j], FLAG_SETS[f], cold, got),
            )
    run.sample({"sub": "cache_sequence", "first_queries": [(names[i], names[j], FLAG_SETS[f]) for i, j, f in seqs[0][:4]], "length": len(seqs[0])})
    # ---- deep types; leaves restricted to types not involved in a base-level join/meet/union finding
    clean = [i for i in range(n) if i not in tainted_join_meet]
    run.label("deep_leaf_types", len(clean))
    run.label("deep_excluded_leaf_types_with_known_base_findings", n - len(clean))
    work = [(run.seed * 1000 + w, 600 if q else 6000, clean) for w in range(16)]
    for r in pmap(eval_deep, work, recycle=None):
        run.count(r["n"])
        for h in r["nontriv"]:
            run.nontriv(h)
        for k, v in r["labels"].items():
            run.label(k, v)
        for smp in r["samples"][:1]:
            run.sample(smp)
        for law, s, t, ks, kt, det in r["viol"]:
            run.report("deep|" + signature(law, ks, kt), {"sub": "deep", "s": s, "t": t}, "%s fails for deep types s=%s t=%s: %s" % (law, s, t, det))
    run.exhaustive = True
    run.extra["exhaustive_subspaces"] = "all ordered pairs and all triples of the depth<=1 universe; deep types and cache sequences are sampled"
