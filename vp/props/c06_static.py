"""C06 static oracle: an independent *nominal* ownership checker over final mypyc IR.

It follows the contract the ops declare (Op.stolen(), Value.is_borrowed, DecRef.is_xdec, error
edges of Branch(IS_ERROR)) - the contract mypyc/transform/refcount.py and all later passes
(spill, lowering, copy propagation, flag elimination) must jointly respect - and checks on every
CFG path of a function:

  negative      a DecRef / steal of a value whose owned count is 0 (double release / steal of a
                borrowed reference without IncRef)
  use-released  a read of a non-borrowed value whose owned count is 0 (use after release)
  overwrite     Assign to a register that still owns a reference (the old reference leaks)
  leak          owned counts not all 0 at Return (besides the returned value) / Unreachable
  join          two CFG paths reach a block with different owned counts for a value
  null-use      a read / steal / inc_ref / non-x dec_ref of a value that is NULL on some path reaching
                the op (its own IS_ERROR edge, or a named register holding the `undefined` marker)

A value that is NULL on a path (error edge of its own IS_ERROR branch) has no definite count there
(the refcount pass does not touch it: "HAX" in insert_branch_inc_and_decrefs); it is a wildcard
that takes the other path's count at a join.

Wrong stolen()/is_borrowed declarations of a primitive are invisible to it (dynamic oracle's job).
No mypy/mypyc analysis code is used: only the op classes' declared attributes.
"""
from __future__ import annotations

WILD = -1


class Alarm:
    __slots__ = ("kind", "value", "where", "detail", "producer", "consumer")

    def __init__(self, kind: str, value: str, where: str, detail: str, producer: str, consumer: str):
        self.kind, self.value, self.where, self.detail, self.producer, self.consumer = kind, value, where, detail, producer, consumer

    def __repr__(self) -> str:
        return "%s %s[%s] at %s: %s" % (self.kind, self.value, self.producer, self.where, self.detail)


def check_function(fn) -> tuple[list[Alarm], dict]:
    """Returns (alarms, stats) for one FuncIR."""
    from mypyc.ir import ops as O

    Register, Integer, Float, CString, Undef = O.Register, O.Integer, O.Float, O.CString, O.Undef
    Assign, AssignMulti, Branch, Goto, Return, Unreachable = O.Assign, O.AssignMulti, O.Branch, O.Goto, O.Return, O.Unreachable
    IncRef, DecRef, Unborrow, KeepAlive, TupleGet, LoadMem, GetAttr = O.IncRef, O.DecRef, O.Unborrow, O.KeepAlive, O.TupleGet, O.LoadMem, O.GetAttr
    LoadErrorValue, LoadAddress, SetAttr = O.LoadErrorValue, O.LoadAddress, O.SetAttr

    blocks = fn.blocks
    label = {b: i for i, b in enumerate(blocks)}
    for b in list(blocks):  # (dead blocks may point at blocks that were dropped from fn.blocks)
        for t in b.ops[-1].targets() if b.ops else ():
            if t not in label:
                label[t] = len(label)
    names: dict = {}
    n_tmp = 0
    for a in fn.arg_regs:
        names[a] = a.name
    for b in blocks:
        for op in b.ops:
            if isinstance(op, (Assign, AssignMulti)):
                if op.dest not in names:
                    names[op.dest] = op.dest.name or "reg%d" % len(names)
            elif not op.is_void:
                names[op] = "r%d" % n_tmp
                n_tmp += 1

    def nm(v) -> str:
        return names.get(v) or getattr(v, "name", None) or type(v).__name__

    def tracked(v) -> bool:
        return v.type.is_refcounted and not isinstance(v, (Integer, Float, CString, Undef))

    def producer(v) -> str:
        if isinstance(v, Register):
            return "arg" if v.is_arg else "local"
        t = type(v).__name__
        if t == "CallC":
            return "CallC:" + v.function_name
        if t == "PrimitiveOp":
            return "Primitive:" + v.desc.name
        if t in ("GetAttr", "SetAttr"):
            return "%s:%s" % (t, v.attr)
        if t == "Call":
            return "Call:" + v.fn.shortname
        if t == "MethodCall":
            return "MethodCall:" + v.method
        return t

    def consumer(op) -> str:
        t = type(op).__name__
        if isinstance(op, SetAttr):
            return "SetAttr:" + op.attr
        if t == "CallC":
            return "CallC:" + op.function_name
        return t

    alarms: list[Alarm] = []
    seen_alarm: set = set()

    def alarm(kind: str, v, b, i, detail: str, op=None) -> None:
        key = (kind, v)
        if key in seen_alarm:
            return
        seen_alarm.add(key)
        alarms.append(Alarm(kind, nm(v), "L%d.%d" % (label[b], i), detail, producer(v), consumer(op) if op is not None else ""))

    stats = {"blocks": len(blocks), "error_branches": 0, "decrefs": 0, "increfs": 0, "ops": 0, "back_edges": 0, "visits": 0}
    for b in blocks:
        for op in b.ops:
            stats["ops"] += 1
            if isinstance(op, IncRef):
                stats["increfs"] += 1
            elif isinstance(op, DecRef):
                stats["decrefs"] += 1
            elif isinstance(op, Branch) and op.op == Branch.IS_ERROR:
                stats["error_branches"] += 1
        for t in b.ops[-1].targets() if b.ops else ():
            if label[t] <= label[b]:
                stats["back_edges"] += 1

    # state: owned: value -> count (absent = 0; WILD = NULL on this path), lost: overwritten arg registers,
    # maynull: values that are NULL on some path reaching here, nonnull: values proven non-NULL on every path
    # reaching here (required arguments, values that passed their IS_ERROR test, literals/boxes/tuples, copies of those)
    sig_args = {a.name: a for a in fn.decl.sig.args} if getattr(fn, "decl", None) is not None else {}
    nn0 = frozenset(r for r in fn.arg_regs if r.name in sig_args and not sig_args[r.name].optional)
    entry: dict = {blocks[0]: ({}, frozenset(), frozenset(), nn0)}
    work = [blocks[0]]
    inwork = {blocks[0]}
    limit = 40 * len(blocks) + 100
    while work:
        b = work.pop(0)
        inwork.discard(b)
        stats["visits"] += 1
        if stats["visits"] > limit:
            raise RuntimeError("ownership checker did not converge")
        owned0, lost0, maynull0, nn_in = entry[b]
        owned = dict(owned0)
        lost = set(lost0)
        maynull = set(maynull0)
        nonnull = set(nn_in)

        def usable(v) -> bool:
            if not tracked(v):
                return True
            c = owned.get(v, 0)
            if c > 0 or c == WILD:
                return True  # (WILD reported separately as null-use)
            if isinstance(v, Register):
                return v.is_arg and v not in lost
            return bool(v.is_borrowed)

        for i, op in enumerate(b.ops):
            nonnull.discard(op)  # a new execution of the op yields a new, unchecked result
            if isinstance(op, IncRef):
                v = op.src
                if tracked(v):
                    if owned.get(v, 0) == WILD or v in maynull:
                        alarm("null-use", v, b, i, "inc_ref of a value that is NULL on a path reaching here", op)
                    elif not usable(v):
                        alarm("use-released", v, b, i, "inc_ref of a value with no owned reference on this path", op)
                    if owned.get(v, 0) != WILD:
                        owned[v] = owned.get(v, 0) + 1
                continue
            if isinstance(op, DecRef):
                v = op.src
                if tracked(v):
                    c = owned.get(v, 0)
                    if c == WILD:
                        if not op.is_xdec:
                            alarm("null-use", v, b, i, "dec_ref (not xdec_ref) of a value that is NULL on this path", op)
                    elif c > 0:
                        if v in maynull and not op.is_xdec:
                            alarm("null-use", v, b, i, "dec_ref (not xdec_ref) of a value that is NULL on a path reaching here", op)
                        owned[v] = c - 1
                    elif isinstance(v, (LoadMem, GetAttr)) and v.is_borrowed:
                        pass  # explicit release of a reference held in memory: outside the accounting
                    else:
                        alarm("negative", v, b, i, "%sdec_ref of a value whose owned count is 0 on this path" % ("x" if op.is_xdec else ""), op)
                continue
            if isinstance(op, (KeepAlive, Goto, Unreachable, Branch)):
                continue
            stolen = op.stolen()
            is_copy = isinstance(op, Assign)
            # reads
            for s in op.unique_sources():
                if isinstance(op, TupleGet) and op.is_borrowed:
                    continue  # field copy out of a tuple struct value: no reference is touched
                if isinstance(op, LoadAddress):
                    continue
                if tracked(s) and not is_copy and (owned.get(s, 0) == WILD or s in maynull):
                    alarm("null-use", s, b, i, "%s reads a value that is NULL on a path reaching here" % type(op).__name__, op)
                elif not usable(s):
                    alarm("use-released", s, b, i, "%s reads a value with no owned reference on this path" % type(op).__name__, op)
            # steals
            src_null = False
            for s in stolen:
                if not tracked(s):
                    continue
                c = owned.get(s, 0)
                if c == WILD:
                    src_null = True
                    owned[s] = 0
                elif c > 0:
                    owned[s] = c - 1
                else:
                    alarm("negative", s, b, i, "%s steals a reference that is not owned on this path (missing inc_ref)" % type(op).__name__, op)
            if isinstance(op, Unborrow):
                # tuple-decomposition idiom: the aggregate's reference is taken over by its items
                # (KeepAlive(steal=True) is stripped by the refcount pass; the items are unborrowed in index order)
                src = op.src
                if isinstance(src, TupleGet) and src.index == 0 and tracked(src.src) and owned.get(src.src, 0) > 0:
                    owned[src.src] -= 1
                if tracked(op):
                    owned[op] = owned.get(op, 0) + 1
            elif isinstance(op, Assign):
                d = op.dest
                if tracked(d):
                    if owned.get(d, 0) > 0:
                        alarm("overwrite", d, b, i, "assignment overwrites a register that still owns a reference", op)
                    owned[d] = 1
                    if d.is_arg:
                        lost.add(d)
                    undef = (isinstance(op.src, LoadErrorValue) and op.src.undefines) or src_null or (op.src in maynull)
                    if undef and d.name:
                        maynull.add(d)
                    else:
                        maynull.discard(d)
                if op.src in nonnull:
                    nonnull.add(op.dest)
                else:
                    nonnull.discard(op.dest)
            elif isinstance(op, (AssignMulti, Return)):
                pass
            elif not op.is_void and tracked(op) and not op.is_borrowed:
                owned[op] = owned.get(op, 0) + 1
            if isinstance(op, (O.LoadLiteral, O.Box, O.TupleSet)):
                nonnull.add(op)

        term = b.ops[-1]
        if isinstance(term, (Return, Unreachable)):
            for v, c in owned.items():
                if c > 0:
                    alarm("leak", v, b, len(b.ops) - 1, "owned count %d at %s" % (c, type(term).__name__), term)
            continue
        dead_edge = -1
        if isinstance(term, Branch) and term.op == Branch.BOOL:
            # `raise <StandardError>` and ERR_ALWAYS ops yield a constant false: the fall-through edge (to an
            # Unreachable block) is never taken
            v = term.value
            if isinstance(v, O.RaiseStandardError) or (isinstance(v, Integer) and v.value == 0):
                dead_edge = 0 if not term.negated else 1
        for ti, t in enumerate(term.targets()):
            if ti == dead_edge:
                continue
            o2, mn2 = owned, maynull
            if isinstance(term, Branch) and term.op == Branch.IS_ERROR and tracked(term.value):
                v = term.value
                null_edge = 1 if term.negated else 0
                if ti == null_edge:
                    if v in nonnull:
                        continue  # infeasible: the value is not NULL on any path reaching here
                    o2 = dict(owned)
                    o2[v] = WILD
                    mn2 = set(maynull)
                    if not isinstance(v, Register):
                        # (a register whose uninit check failed stays a wildcard on that path only: after a join with a
                        #  defined path, a plain dec_ref of it is reported by mypyc's own must-defined analysis as safe;
                        #  one such pattern - UnboundLocalError swallowed by a `with` - could not be made to crash and is
                        #  left as an open lead instead of an alarm class)
                        mn2.add(v)
                else:
                    if owned.get(v, 0) == WILD:
                        continue  # infeasible: the value is NULL on this path
                    if v in maynull:
                        mn2 = set(maynull)
                        mn2.discard(v)
            nn2 = nonnull
            if isinstance(term, Branch) and term.op == Branch.IS_ERROR and ti != (1 if term.negated else 0):
                nn2 = set(nonnull)
                nn2.add(term.value)
            new = ({v: c for v, c in o2.items() if c != 0}, frozenset(lost), frozenset(mn2), frozenset(nn2))
            if t not in entry:
                entry[t] = new
                if t not in inwork:
                    work.append(t)
                    inwork.add(t)
                continue
            old_owned, old_lost, old_mn, old_nn = entry[t]
            merged = dict(old_owned)
            changed = False
            for v in list(old_owned) + [v for v in new[0] if v not in old_owned]:
                a, c = old_owned.get(v, 0), new[0].get(v, 0)
                if a == c:
                    continue
                if a == WILD:
                    if c == 0:
                        merged.pop(v, None)
                    else:
                        merged[v] = c
                    changed = True
                elif c == WILD:
                    pass
                else:
                    alarm("join", v, b, len(b.ops) - 1, "owned count %d on the edge L%d->L%d but %d on an edge seen before" % (c, label[b], label[t], a), term)
            m_lost = old_lost | new[1]
            m_mn = old_mn | new[2]
            m_nn = old_nn & new[3]
            if changed or m_lost != old_lost or m_mn != old_mn or m_nn != old_nn:
                entry[t] = (merged, m_lost, m_mn, m_nn)
                if t not in inwork:
                    work.append(t)
                    inwork.add(t)
    return alarms, stats


def signature(fn, a: Alarm) -> str:
    """Root-cause level signature of a static alarm: (oracle=static, kind, IR pattern)."""
    cls = getattr(fn.decl, "class_name", None) or ""
    name = fn.decl.name
    prod = a.producer.split(":")[0]
    cons = a.consumer.split(":")[0]
    if name == "close" and a.producer == "CallC:CPyObject_GetAttr" and "_gen" in cls:
        # every alarm on that value in a generator's close() is the one inconsistency
        return "static|null-use|generator-close:GeneratorExit-lookup-used-in-own-error-handler"
    if a.kind == "negative" and a.consumer.startswith("SetAttr:__mypyc_temp__2_"):
        return "static|negative|generator-spill-steals-borrowed-%s" % prod
    return "static|%s|%s<-%s" % (a.kind, cons or "-", prod)
