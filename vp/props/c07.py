"""C07 - parallel checking gives the sequential result under every schedule.

G2 projects (8-14 modules, deep/wide graphs with cycles, errors, blockers, missing
imports); N in {1,2,3,4,8}; a schedule vector (per-(SCC, phase) delays, free-worker policy,
batch-size policy, reply order) drawn per case and applied by a shim in the coordinator and
in every worker.  Oracle: sequential build with --native-parser on the same tree (exit
status, per-file ordered diagnostics, multiset).  Then an edit -> warm sequential and warm
parallel runs on the cache the parallel build left -> equal to cold.
"""
from __future__ import annotations

import copy
import json
import os
import random
import shutil

from vp.common import Run, VERIF, chash, pmap
from vp import mypyrun, histrun, diag
from vp.gen import project

LEVEL = "exploration"
FLAGS = ["--native-parser", "--no-sqlite-cache"]
SHIM_PATH = os.path.join(VERIF, "vp", "shim", "site") + os.pathsep + VERIF


def env_for(spec):
    env = {"PYTHON_MYPY_VERIF": "1", "VP_SCHED": json.dumps(spec)}
    pp = SHIM_PATH
    if mypyrun.REPO != "/repo":
        pp = mypyrun.REPO + os.pathsep + pp
    env["PYTHONPATH"] = pp
    return env


def run_sub(root, targets, flags, cache, n=None, spec=None):
    fl = histrun.COMMON + flags + (["-n", str(n)] if n else []) + ["--cache-dir", cache] + list(targets)
    for attempt in range(3):
        out, err, st = mypyrun.run_sub(fl, cwd=root, env=env_for(spec) if spec else None, timeout=900)
        # worker start-up has a wall-clock timeout inside mypy; on a loaded machine the coordinator gives up
        # ("Cannot connect to build worker(s)") and late workers then die on the removed options file.
        # That is an environment timeout, not a verdict: retry, then report as inconclusive.
        if n and ("Cannot connect to build worker" in out + err or ".worker_options." in err):
            continue
        break
    else:
        return {"status": st, "diags": [], "rest": [], "err": "WORKER-STARTUP-TIMEOUT", "stats": {}, "raw": ""}
    ds, rest = diag.parse(out)
    return {"status": st, "diags": ds, "rest": rest, "err": err[-3000:], "stats": {}, "raw": out}


def eval_case(arg):
    seed, nmods, n, sched, store = arg[:5]
    pre = arg[5] if len(arg) > 5 else None
    flags = ["--native-parser", "--sqlite-cache" if store == "sqlite" else "--no-sqlite-cache"]
    st0, ops = pre if pre else project.history(seed, nmods, 2)
    root = mypyrun.scratch("c07")
    cpar = mypyrun.scratch("c07par")
    cseq = mypyrun.scratch("c07seq")
    res = {"seed": seed, "nmods": nmods, "n": n, "sched": sched, "store": store, "st0": st0, "ops": ops, "problems": []}
    try:
        proj = histrun.Project(root)
        st = copy.deepcopy(st0)
        project.apply_edit(st, ops[0])
        # one module that imports a flat module also imports a module that exists nowhere (a persistent
        # import-not-found error); in the last phase one of its real dependencies is deleted without editing it
        rnd_m = random.Random(seed + 7)
        holders = sorted(m for m, mm in st["mods"].items() if any("." not in d and d in st["mods"] and not any(o.startswith(d + ".") for o in st["mods"]) for d in mm["imports"]))
        holder = rnd_m.choice(holders) if holders else None
        if holder:
            project.apply_edit(st, {"op": "add_missing_import", "mod": holder, "seed": 1})
        proj.sync(project.render(st), project.unlisted_paths(st))
        targets = proj.targets()
        mypyrun.seed_for(histrun.COMMON + flags, "c07").copy_to(cseq)
        mypyrun.seed_for(histrun.COMMON + flags, "c07").copy_to(cpar)
        seq = run_sub(root, targets, flags, cseq)
        log = os.path.join(root, ".schedlog")
        spec = dict(sched, log=log)
        par = run_sub(root, targets, flags, cpar, n=n, spec=spec)
        recs = []
        if os.path.exists(log):
            with open(log) as f:
                for l in f:
                    try:
                        recs.append(json.loads(l))
                    except ValueError:
                        pass
            os.remove(log)
        wpids = sorted({r["pid"] for r in recs if r.get("role") == "worker"})
        res["workers_used"] = len(wpids)
        res["sccs_processed"] = sum(1 for r in recs if r.get("phase") == "interface")
        owner = {}
        for r in recs:
            if r.get("phase") == "interface":
                for m in r["mods"]:
                    owner[m] = r["pid"]
        cross = False
        for m, mm in st["mods"].items():
            for d in mm["imports"]:
                if m in owner and d in owner and owner[m] != owner[d]:
                    cross = True
        res["cross_worker_dependency"] = cross
        if histrun.crashed(seq):
            res["skip"] = "sequential crashed"
            return res
        if par["err"] == "WORKER-STARTUP-TIMEOUT":
            res["skip"] = "worker start-up timed out three times (machine load)"
            return res
        if histrun.crashed(par):
            res["problems"].append(("cold-parallel", "crash", par["err"][-1500:] + par["raw"][-300:], []))
        else:
            d = compare_unordered(par, seq)
            if d:
                res["problems"].append(("cold-parallel",) + d)
        # edit -> warm runs on the cache the parallel build left (sequential on a copy, parallel on the chain cache);
        # then the edit is REVERTED and some untouched files get a new mtime -> warm parallel and sequential again.
        # (A dependant that recorded a stale interface hash during the parallel run is wrongly fresh after the revert.)
        st_before = copy.deepcopy(st)
        # the edit changes the interface of an export that other modules use (falls back to the drawn edit)
        users = sorted({u["dep"] for o, om in st["mods"].items() for u in om["uses"] if u["dep"] in st["mods"] and u["dep"] != o})
        rnd0 = random.Random(seed + 1)
        done = False
        if users:
            done = project.apply_edit(st, {"op": "change_used_export", "mod": rnd0.choice(users), "seed": rnd0.randrange(2**30)})
        if not done:
            project.apply_edit(st, ops[1])
        rnd = random.Random(seed)
        phases = [("after-edit", st), ("after-revert", st_before)]
        if holder and holder in st_before["mods"]:
            flat = sorted(d for d in st_before["mods"][holder]["imports"] if "." not in d and d in st_before["mods"] and not any(o.startswith(d + ".") for o in st_before["mods"]))
            if flat and len(st_before["mods"]) > 2:
                st_del = copy.deepcopy(st_before)
                if project.apply_edit(st_del, {"op": "delete_module_flat", "mod": rnd_m.choice(flat), "seed": 1}):
                    phases.append(("after-dependency-deleted", st_del))
        prev_state = st_before
        for phase, state in phases:
            proj.sync(project.render(state), project.unlisted_paths(state))
            if phase == "after-revert":
                same = sorted(proj.files)
                proj.touch(rnd.sample(same, min(3, len(same))))
            targets = proj.targets()
            cold_dir = mypyrun.scratch("c07cold")
            cseq2 = mypyrun.scratch("c07seq2")
            try:
                mypyrun.seed_for(histrun.COMMON + flags, "c07").copy_to(cold_dir)
                cold = run_sub(root, targets, flags, cold_dir)
                shutil.copytree(cpar, cseq2, dirs_exist_ok=True)
                warm_seq = run_sub(root, targets, flags, cseq2)
                warm_par = run_sub(root, targets, flags, cpar, n=n, spec=dict(sched, log=None))
                # a chain that never saw a parallel build: what it gets wrong is incremental mode's business (C02), not C07's
                pure_seq = run_sub(root, targets, flags, cseq)
                pure_d = None if (histrun.crashed(pure_seq) or histrun.crashed(cold)) else compare_unordered(pure_seq, cold)
                if not histrun.crashed(cold):
                    for name, r in (("warm-sequential-on-parallel-cache:" + phase, warm_seq), ("warm-parallel-on-parallel-cache:" + phase, warm_par)):
                        if r["err"] == "WORKER-STARTUP-TIMEOUT":
                            continue
                        if histrun.crashed(r):
                            res["problems"].append((name, "crash", r["err"][-1500:] + r["raw"][-300:], []))
                        else:
                            d = compare_unordered(r, cold)
                            if d:
                                full = histrun.compare(r, cold)
                                files_d = set(full[3]) if full and len(full) > 3 and full[3] else set()
                                if d[2] and set(d[2]) <= {"has-type"} and files_d and files_d <= (histrun.cyclic_files(state) | histrun.cyclic_files(prev_state)):
                                    # 'Cannot determine type of X' inside an import cycle depends on the order in which the
                                    # cycle's modules are processed; a warm run re-processes only the stale ones (the C02 finding)
                                    d = ("in-cycle-order-dependence",) + tuple(d[1:])
                                elif pure_d and (pure_d[0], pure_d[2]) == (d[0], d[2]) and pure_d[1] == d[1]:
                                    d = ("same-difference-in-a-purely-sequential-chain",) + tuple(d[1:])
                                res["problems"].append((name,) + d)
            finally:
                mypyrun.rmtree(cold_dir)
                mypyrun.rmtree(cseq2)
            prev_state = state
        if res["problems"]:
            res["files"] = project.render(st)
    finally:
        for d in (root, cpar, cseq):
            mypyrun.rmtree(d)
    return res


def compare_unordered(a, b):
    """C02 normal form; cross-file order is free (streaming order is schedule dependent)."""
    d = histrun.compare(a, b)
    if d is None:
        return None
    return (d[0], d[1], d[2] if len(d) > 2 else [])


def judge(run: Run, res) -> None:
    run.count(5)
    if "skip" in res:
        run.label("skipped:" + res["skip"])
        if "timed out" in res["skip"] and not run.inconclusive:
            run.inconclusive.append("some parallel runs could not start their workers within mypy's own start-up timeout (machine load); those cases were not judged")
        return
    run.label("workers_used:%d" % res.get("workers_used", 0))
    if res.get("workers_used", 0) >= 2 and res.get("cross_worker_dependency"):
        run.nontriv(chash([res["seed"], res["n"], res["sched"]]))
    for where, klass, detail, codes in res["problems"]:
        case = {"seed": res["seed"], "nmods": res["nmods"], "n": res["n"], "sched": res["sched"], "store": res["store"], "st0": res["st0"], "ops": res["ops"]}
        if klass in ("same-line-order", "advisory-note-placement", "in-cycle-order-dependence", "same-difference-in-a-purely-sequential-chain"):
            sg = klass
        elif klass == "crash":
            from vp.props.c20 import crash_signature

            sg = "crash|%s|%s" % (where, crash_signature(detail, "parallel") or "unparsed")
        else:
            sg = "%s|%s|%s" % (klass, where, ",".join(codes[:3]) or "-")
        run.report(sg, case, "project seed %d, -n %d, schedule %s: %s differs from the sequential/cold result: %s %s" % (res["seed"], res["n"], res["sched"], where, klass, detail))


def replay(run: Run, case: dict, origin: str | None = None) -> bool:
    before = len(run.violations)
    judge(run, eval_case((case["seed"], case["nmods"], case["n"], case["sched"], case.get("store", "fs"), (case["st0"], case["ops"]))))
    return len(run.violations) == before


def run(run: Run) -> None:
    q = run.tier == "quick"
    import hypothesis
    from hypothesis import given, settings, strategies as st, HealthCheck

    run.rule = (
        "(project, schedule) pairs: G2 projects with 10-18 modules (cycles, errors, blockers, missing imports) x N in {1,2,3,4,8} x schedule vector drawn by Hypothesis (per-(SCC, phase) delays 0-%d ms applied in every worker, "
        "free-worker policy min/max/rand/default, batch policy one/all/default, reply reordering) x store fs/sqlite; parallel cold run vs sequential run with the same parser; after an edit, again after the edit is reverted and some unchanged files are touched, and again after a dependency of a module that has a persistently missing import is deleted (that module is not edited), warm sequential and warm parallel runs on the cache the parallel builds left vs cold. "
        "Non-trivial: >=2 workers processed SCCs and some module's dependency was processed by a different worker (from the shim's log)." % (60 if q else 300)
    )
    run.assumptions = ["schedules are perturbed, not enumerated: 'every schedule' is sampled", "cross-file message order is not compared (streaming order is schedule dependent by design)"]
    cases = []

    sched = st.fixed_dictionaries({
        "seed": st.integers(0, 2**30), "max_delay_ms": st.sampled_from([0, 5, 20, 60] if q else [0, 5, 20, 100, 300]),
        "free": st.sampled_from(["default", "min", "max", "rand"]), "batch": st.sampled_from(["one", "one", "default", "all"]), "reorder": st.booleans(),
    })

    @hypothesis.seed(run.seed)
    @settings(max_examples=20 if q else 300, database=None, deadline=None, suppress_health_check=list(HealthCheck), phases=[hypothesis.Phase.generate])
    @given(st.integers(0, 2**40), st.integers(10, 18), st.sampled_from([2, 2, 3, 4, 8, 1]), sched, st.sampled_from(["fs", "sqlite"]))
    def draw(s, nm, n, sc, store):
        cases.append((s, nm, n, sc, store))

    draw()
    k = 0
    for res in pmap(eval_case, cases, workers=4 if q else 5, recycle=3):
        judge(run, res)
        k += 1
        if k <= 3:
            run.sample({"project_seed": res["seed"], "modules": res["nmods"], "n": res["n"], "schedule": res["sched"], "workers_used": res.get("workers_used"), "sccs_processed_by_workers": res.get("sccs_processed"), "cross_worker_dependency": res.get("cross_worker_dependency")})
        if run.out_of_time(280 if q else 3400):
            break
