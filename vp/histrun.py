"""Materialising G2 projects on disk and running mypy on them (shared by C02/C03/C04/C07/C10)."""
from __future__ import annotations

import os

from vp import mypyrun, diag
from vp.gen import project

COMMON = ["--no-error-summary", "--hide-error-context", "--no-color-output", "--show-column-numbers", "--config-file", os.devnull]

_LAST_STATS: dict = {}
_PATCHED = False


def install_stats_hook():
    """Wrap mypy.build.build (in this process) to remember how many modules were re-checked."""
    global _PATCHED
    if _PATCHED:
        return
    import mypy.build as B
    import mypy.main as M

    orig = B.build

    def wrapped(*a, **kw):
        _LAST_STATS.clear()
        res = orig(*a, **kw)
        try:
            man = res.manager
            _LAST_STATS["stale"] = len(man.stale_modules)
            _LAST_STATS["rechecked"] = len(man.rechecked_modules)
            _LAST_STATS["user_modules"] = sum(1 for m, st in res.graph.items() if st.path and "typeshed" not in st.path) if hasattr(res, "graph") else None
        except Exception:
            pass
        return res

    B.build = wrapped
    _PATCHED = True


class Project:
    """A directory that follows a project state; mtimes advance 2 s per rewrite."""

    def __init__(self, root: str):
        self.root = root
        self.files: dict[str, str] = {}
        self.clock = mypyrun.BASE_MTIME

    def sync(self, files: dict, unlisted=()) -> list[str]:
        """Write changed files, delete vanished ones. Returns changed paths.
        `unlisted`: paths that exist on disk but are not passed on the command line."""
        self.unlisted = set(unlisted)
        changed = []
        self.clock += 2
        for p in sorted(set(self.files) - set(files)):
            try:
                os.remove(os.path.join(self.root, p))
            except FileNotFoundError:
                pass
            d = os.path.dirname(os.path.join(self.root, p))
            while d != self.root and os.path.isdir(d) and not os.listdir(d):
                os.rmdir(d)
                d = os.path.dirname(d)
            changed.append(p)
        for p, t in sorted(files.items()):
            if self.files.get(p) != t:
                mypyrun.write_files(self.root, {p: t}, mtime=self.clock)
                changed.append(p)
        self.files = dict(files)
        return changed

    def touch(self, paths) -> None:
        """New mtime, same contents (mypy re-validates such files by hash and rewrites their meta)."""
        self.clock += 2
        for p in paths:
            fp = os.path.join(self.root, p)
            if os.path.exists(fp):
                os.utime(fp, (self.clock, self.clock))

    def targets(self) -> list[str]:
        # a .py shadowed by a sibling stub is not listed (would be a duplicate module)
        return sorted(p for p in self.files if not (p.endswith(".py") and p + "i" in self.files) and p not in getattr(self, "unlisted", ()))


def run(root: str, targets, flags, cache_dir: str):
    """In-process run. Returns dict(status, diags, rest, err, stats, raw)."""
    install_stats_hook()
    out, err, st = mypyrun.run_inproc(COMMON + flags + ["--cache-dir", cache_dir] + list(targets), cwd=root)
    ds, rest = diag.parse(out)
    return {"status": st, "diags": ds, "rest": rest, "err": err[-3000:], "stats": dict(_LAST_STATS), "raw": out}


def crashed(r) -> bool:
    return r["status"] not in (0, 1, 2) or "Traceback (most recent call last)" in r["err"] or "INTERNAL ERROR" in r["err"] or "INTERNAL ERROR" in r["raw"]


def compare(a, b):
    """Compare two results in the C02 normal form.
    Returns None if equal, else (klass, detail). klass in: exit-status, missing-diagnostic, stale-diagnostic,
    same-line-order, advisory-note-placement (the last two are cosmetic classes)."""
    if a["status"] != b["status"]:
        return ("exit-status", "exit %s vs %s" % (a["status"], b["status"]))
    if a["status"] == 2:
        # both runs were stopped by a blocking error: which NON-blocking diagnostics were already printed when the
        # blocker was hit depends on processing order and on what came from the cache (listed finding); only the
        # exit status is compared for blocked runs
        return None
    nfa, adva = diag.normal_form(a["diags"])
    nfb, advb = diag.normal_form(b["diags"])
    if nfa != nfb or adva != advb:
        ka = [tuple(x)[:3] + tuple(x)[5:] for x in a["diags"] if not diag.is_advisory(x)]
        kb = [tuple(x)[:3] + tuple(x)[5:] for x in b["diags"] if not diag.is_advisory(x)]
        only_a = [k for k in ka if k not in kb]
        only_b = [k for k in kb if k not in ka]
        files = sorted({k[0] for k in only_a + only_b})
        if only_a:
            return ("stale-diagnostic", "only in first: %s" % only_a[:3], sorted({k[-1] or "nocode" for k in only_a}), files)
        if only_b:
            return ("missing-diagnostic", "only in second: %s" % only_b[:3], sorted({k[-1] or "nocode" for k in only_b}), files)
        if adva != advb:
            # once-per-run notes replayed a different number of times / at other places / not at all (a fresh module's
            # cached error lines carry them or not depending on where an EARLIER run attached them)
            return ("advisory-note-placement", "%s vs %s" % (adva, advb), [])
        return ("within-file-order", "per-file order differs", [])
    # equal in normal form: cosmetic differences?
    seq = lambda r: [tuple(x) for x in r["diags"] if not diag.is_advisory(x)]
    per_file = lambda r: {f: [t for t in seq(r) if t[0] == f] for f in {t[0] for t in seq(r)}}
    if per_file(a) != per_file(b):
        return ("same-line-order", "diagnostics sharing one line are ordered differently", [])
    adv_pos = lambda r: sorted((x.file, x.line, x.msg) for x in r["diags"] if diag.is_advisory(x))
    if adv_pos(a) != adv_pos(b):
        return ("advisory-note-placement", "%s vs %s" % (adv_pos(a)[:2], adv_pos(b)[:2]), [])
    return None


def replay_state(st0, ops, upto: int):
    import copy

    st = copy.deepcopy(st0)
    for op in ops[:upto]:
        project.apply_edit(st, op)
    return st


def run_fresh(root: str, targets, flags, cache_dir: str):
    """Same as run() but in a fresh `python -m mypy` process (no state shared with earlier builds)."""
    out, err, st = mypyrun.run_sub(COMMON + flags + ["--cache-dir", cache_dir] + list(targets), cwd=root, timeout=900)
    ds, rest = diag.parse(out)
    return {"status": st, "diags": ds, "rest": rest, "err": err[-3000:], "stats": {}, "raw": out}


def confirm_prefix(st0, ops, upto: int, flags, seed_prefix: str):
    """Re-executes a history prefix with every mypy run in a fresh process; returns compare(warm, cold) at step `upto`."""
    import copy

    root = mypyrun.scratch("confirm")
    cache = mypyrun.scratch("confirmcache")
    cold_dir = mypyrun.scratch("confirmcold")
    try:
        mypyrun.seed_for(COMMON + flags, seed_prefix).copy_to(cache)
        mypyrun.seed_for(COMMON + flags, seed_prefix).copy_to(cold_dir)
        proj = Project(root)
        st = copy.deepcopy(st0)
        warm = None
        for step in range(upto + 1):
            if step > 0:
                project.apply_edit(st, ops[step - 1])
            proj.sync(project.render(st), project.unlisted_paths(st))
            warm = run_fresh(root, proj.targets(), flags, cache)
        cold = run_fresh(root, proj.targets(), flags, cold_dir)
        return compare(warm, cold), warm, cold
    finally:
        for d in (root, cache, cold_dir):
            mypyrun.rmtree(d)


def cyclic_files(st) -> set:
    """Paths of modules that lie on an import cycle of the project state (incl. parent packages of imported submodules)."""
    mods = st["mods"]
    edges = {m: set() for m in mods}
    for m, mm in mods.items():
        for d in mm["imports"]:
            if d in mods:
                edges[m].add(d)
            parts = d.split(".")
            for i in range(1, len(parts)):
                par = ".".join(parts[:i])
                if par in mods:
                    edges[m].add(par)
        if "." in m:
            par = m.rsplit(".", 1)[0]
            if par in mods:
                edges[m].add(par)  # importing a submodule imports its package
    # Tarjan-free: reachability closure (projects are tiny)
    reach = {m: set(e) for m, e in edges.items()}
    changed = True
    while changed:
        changed = False
        for m in reach:
            new = set()
            for d in reach[m]:
                new |= reach.get(d, set())
            if not new <= reach[m]:
                reach[m] |= new
                changed = True
    out = set()
    for m in mods:
        if m in reach[m]:
            out.add(project.path_of(m, mods[m]["layout"]))
            out.add(project.path_of(m, mods[m]["layout"], ".pyi"))
    return out
