"""G4: programs extracted from the repository's test-data (`[case]` format).

Expected outputs are never used: the corpus is only an input distribution. Cases are
run against the real typeshed, not the lib-stub fixtures.
"""
from __future__ import annotations

import glob
import os
import re
from typing import NamedTuple

from vp.common import REPO


class Case(NamedTuple):
    name: str
    origin: str
    files: dict  # relpath -> text; the main program is "main.py"
    flags: list
    fixtures: dict = {}  # "builtins.pyi"/"typing.pyi"/... -> path below test-data/unit (only used by fixture-mode drivers)
    notes: tuple = ()  # normalised texts of the notes the test expects in main.py next to an error (sampling aid only)


_SECTION = re.compile(r"^\[([a-zA-Z0-9_.\-/ ]+)\]\s*$")
_EXPECT = re.compile(r"\s*# (E|N|W|flags2?):.*$")


def strip_expectations(text: str) -> str:
    out = []
    for line in text.split("\n"):
        if "# E:" in line or "# N:" in line or "# W:" in line:
            line = re.sub(r"\s*# [ENW]:.*$", "", line)
        out.append(line)
    return "\n".join(out)


def parse_test_file(path: str) -> list[Case]:
    cases: list[Case] = []
    with open(path, encoding="utf-8") as f:
        lines = f.read().split("\n")
    cur_name = None
    cur_sec = None
    secs: dict[str, list[str]] = {}

    def flush():
        if cur_name is None:
            return
        files = {}
        flags: list[str] = []
        notes: tuple = ()
        for sec, body in secs.items():
            text = "\n".join(body).rstrip("\n") + "\n"
            if sec == "main" and "# N:" in text and "# E:" in text:
                found = re.findall(r"# N:(?:\d+:)? ?(.*?)(?= +# [ENW]:|\\?$)", text, flags=re.M)
                notes = tuple(sorted({re.sub(r"\d+", "0", re.sub(r'"[^"]*"', "Q", m)).strip()[:60] for m in found}))
            if sec == "out" and ": note: " in text and ": error: " in text:
                found = re.findall(r"^main:\d+(?::\d+)?: note: (.*)$", text, flags=re.M)
                notes = tuple(sorted(set(notes) | {re.sub(r"\d+", "0", re.sub(r'"[^"]*"', "Q", m)).strip()[:60] for m in found}))
            if sec == "main":
                m = re.search(r"^# flags: (.*)$", text, re.M)
                if m:
                    flags = m.group(1).split()
                files["main.py"] = strip_expectations(text)
            elif sec.startswith("file "):
                fn = sec[5:].strip()
                if re.search(r"\.\d+$", fn):
                    continue  # later incremental steps
                if fn.startswith("/") or ".." in fn:
                    continue
                files[fn] = strip_expectations(text)
        fixtures = {}
        for sec in secs:
            parts = sec.split()
            if len(parts) == 2 and parts[0] in ("builtins", "typing", "typing_extensions", "_typeshed", "enum") and parts[1].startswith(("fixtures/", "lib-stub/")):
                fixtures[parts[0] + ".pyi"] = parts[1]
        if "main.py" in files:
            cases.append(Case(cur_name, os.path.basename(path), files, flags, fixtures, notes))

    for line in lines:
        m = line.startswith("[") and _SECTION.match(line)
        if m:
            tag = m.group(1)
            if tag.startswith("case "):
                flush()
                cur_name = tag[5:].strip().split("-")[0]
                secs = {"main": []}
                cur_sec = "main"
            else:
                cur_sec = tag
                secs.setdefault(cur_sec, [])
            continue
        if cur_name is not None and cur_sec is not None:
            secs[cur_sec].append(line)
    flush()
    return cases


_CACHE: dict[str, list[Case]] = {}


def load(pattern: str = "test-data/unit/check-*.test") -> list[Case]:
    if pattern not in _CACHE:
        out: list[Case] = []
        for p in sorted(glob.glob(os.path.join(REPO, pattern))):
            out.extend(parse_test_file(p))
        _CACHE[pattern] = out
    return _CACHE[pattern]


# flags that are unsafe / interactive / write reports; cases carrying them keep only the safe ones
UNSAFE_FLAG_PREFIXES = (
    "--pdb", "--install-types", "--non-interactive", "--html-report", "--xml-report", "--txt-report", "--linecount-report",
    "--linecoverage-report", "--lineprecision-report", "--cobertura-xml-report", "--any-exprs-report", "--junit-xml", "--cache-dir",
    "--config-file", "--custom-typeshed-dir", "--python-executable", "--shadow-file", "--package-root", "--cache-map", "--bazel",
    "--find-occurrences", "--stats", "--inferstats", "--dump-", "--timing-stats", "--line-checking-stats", "--verbose", "-v",
    "--no-incremental", "--incremental", "--sqlite-cache", "--no-sqlite-cache", "--skip-", "--fast-exit", "--num-workers", "-n",
    "--custom-typing-module", "--plugin", "--always-true", "--always-false", "--raise-exceptions", "--tb", "--show-traceback",
    "--scripts-are-modules", "--quickstart-file", "--export-ref-info", "--mypyc",
)


_VALUE_FLAGS: set | None = None


def value_flags() -> set:
    """Option strings that take one value (by reflection over mypy's argparse table)."""
    global _VALUE_FLAGS
    if _VALUE_FLAGS is None:
        import sys
        from mypy.main import define_options

        parser, _, _ = define_options("mypy", "", sys.stdout, sys.stderr, False)
        _VALUE_FLAGS = set()
        for a in parser._actions:
            if a.option_strings and a.nargs is None and type(a).__name__ in ("_StoreAction", "_AppendAction"):
                _VALUE_FLAGS.update(a.option_strings)
    return _VALUE_FLAGS


def safe_flags(flags: list) -> list:
    out = []
    vf = value_flags()
    i = 0
    while i < len(flags):
        f = flags[i]
        takes = f in vf and "=" not in f
        val = flags[i + 1] if takes and i + 1 < len(flags) else None
        step = 2 if takes and val is not None else 1
        if f.startswith(UNSAFE_FLAG_PREFIXES) or f in ("-m", "-p", "-c") or not f.startswith("-") or (takes and val is None):
            i += step
            continue
        out.append(f)
        if takes:
            out.append(val)
        i += step
    return out
