"""Shared machinery: run context, evidence, known findings, replay files, pools."""
from __future__ import annotations

import collections
import concurrent.futures as cf
import hashlib
import json
import multiprocessing as mp
import os
import sys
import time
import traceback
from typing import Any, Callable, Iterable

VERIF = os.path.dirname(os.path.dirname(os.path.abspath(__file__)))
REPO = os.environ.get("VERIF_REPO", "/repo")
PY = os.environ.get("VERIF_PY", "/venv/bin/python")
NPROC = int(os.environ.get("VERIF_NPROC", "16"))
WORK = os.environ.get("VERIF_WORK", "/var/tmp/vp-work")
OUT = os.environ.get("VERIF_OUT", VERIF)  # where evidence/ and replays/viol-* are written (mutant trials redirect it)

LEVELS = {"exploration", "fault_enumeration", "model_checking", "proof", "translation_validation", "other"}


def chash(obj: Any) -> str:
    """Stable hash of a JSON-able case."""
    return hashlib.sha1(json.dumps(obj, sort_keys=True, default=repr).encode()).hexdigest()[:16]


def trunc(obj: Any, n: int = 1500) -> Any:
    s = obj if isinstance(obj, str) else json.dumps(obj, default=repr)
    if len(s) <= n:
        return obj
    return s[:n] + "...[truncated %d chars]" % (len(s) - n)


def load_known() -> list[dict]:
    p = os.path.join(VERIF, "KNOWN_FINDINGS.json")
    if not os.path.exists(p):
        return []
    with open(p) as f:
        out = json.load(f)["findings"]
    extra = os.environ.get("VERIF_EXTRA_KNOWN")  # development aid for builders; never set by registered commands
    if extra and os.path.exists(extra):
        with open(extra) as f:
            out = out + json.load(f)
    return out


class Run:
    """One execution of one property's check. Collects counts, decides exit."""

    def __init__(self, pid: str, tier: str, seed: int, level: str = "exploration"):
        assert level in LEVELS
        self.pid, self.tier, self.seed, self.level = pid, tier, seed, level
        self.t0 = time.time()
        self.evaluations = 0
        self.nontrivial: set[str] = set()
        self.samples: list[Any] = []
        self.labels: collections.Counter[str] = collections.Counter()
        self.excluded_known: collections.Counter[str] = collections.Counter()
        self.violations: list[dict] = []
        self.unconfirmed = 0
        self.inconclusive: list[str] = []
        self.rule = ""
        self.extra: dict[str, Any] = {}
        self.assumptions: list[str] = []
        self.exhaustive: bool | None = None
        self.known = [k for k in load_known() if k["property"] == pid and k.get("status", "known") == "known"]
        self._known_printed: set[str] = set()
        self._viol_sigs: set[str] = set()
        self._inst_counts: dict[str, int] = {}
        self.max_samples = 8

    # -- accounting -------------------------------------------------------
    def count(self, n: int = 1) -> None:
        self.evaluations += n

    def label(self, name: str, n: int = 1) -> None:
        self.labels[name] += n

    def nontriv(self, case: Any) -> None:
        self.nontrivial.add(case if isinstance(case, str) and len(case) == 16 else chash(case))

    def sample(self, case: Any, force: bool = False) -> None:
        if force or len(self.samples) < self.max_samples:
            self.samples.append(trunc(case))

    def elapsed(self) -> float:
        return time.time() - self.t0

    def out_of_time(self, budget_s: float) -> bool:
        if self.elapsed() > budget_s:
            if not self.inconclusive:
                self.inconclusive.append("wall-clock guard %.0fs reached; remaining cases not run (inconclusive, not a violation)" % budget_s)
            return True
        return False

    # -- verdicts ---------------------------------------------------------
    def match_known(self, signature: str, instance: str | None = None) -> dict | None:
        for k in self.known:
            if k.get("signature") == signature or (k.get("signature_prefix") and signature.startswith(k["signature_prefix"])):
                # an entry that enumerates its failing inputs matches only those inputs
                if "instances" in k and instance not in k["instances"]:
                    continue
                return k
        return None

    def report(self, signature: str, case: dict, text: str, instance: str | None = None) -> bool:
        """Report a (confirmed) violation. Returns True if it is a known finding.
        `instance` identifies the concrete failing input for known entries that list theirs."""
        k = self.match_known(signature, instance)
        if k is None and instance is not None:
            # unlisted input of an instance-listed signature: report a few, count the rest
            self._inst_counts[signature] = self._inst_counts.get(signature, 0) + 1
            if self._inst_counts[signature] > 3:
                self.labels["further_unlisted_instances:" + signature] += 1
                return False
            signature = signature + "@" + instance
        if k is not None:
            self.excluded_known[k["signature"] if "signature" in k else k["signature_prefix"]] += 1
            key = k.get("signature") or k.get("signature_prefix")
            if key not in self._known_printed:
                self._known_printed.add(key)
                print("KNOWN-FINDING: property=%s %s" % (self.pid, k["text"]), flush=True)
            return True
        if signature in self._viol_sigs:
            self.labels["duplicate_violation_same_signature"] += 1
            return False
        self._viol_sigs.add(signature)
        d = os.path.join(OUT, "replays", self.pid)
        os.makedirs(d, exist_ok=True)
        body = {"property": self.pid, "signature": signature, "text": text, "case": case}
        safe = "".join(c if c.isalnum() or c in "-_." else "_" for c in signature)[:80]
        path = os.path.join(d, "viol-%s-%s.json" % (safe, chash(case)))
        with open(path, "w") as f:
            json.dump(body, f, indent=1, default=repr)
        rel = os.path.relpath(path, OUT)
        self.violations.append({"signature": signature, "text": trunc(text, 600), "replay": rel})
        print("VIOLATION property=%s replay=%s" % (self.pid, rel), flush=True)
        print("  signature: %s\n  %s" % (signature, trunc(text, 800)), flush=True)
        return False

    def finish(self) -> int:
        wall = time.time() - self.t0
        cov: dict[str, Any] = {
            "evaluations": self.evaluations,
            "distinct_nontrivial": len(self.nontrivial),
            "rule": self.rule,
            "samples": self.samples[: self.max_samples + 4],
            "labels": dict(sorted(self.labels.items())),
            "excluded_known": dict(sorted(self.excluded_known.items())),
            "unconfirmed": self.unconfirmed,
            "inconclusive": self.inconclusive,
            "violations_detail": self.violations[:20],
        }
        if self.exhaustive is not None:
            cov["exhaustive"] = self.exhaustive
        cov.update(self.extra)
        ev = {
            "property_id": self.pid,
            "tier": self.tier,
            "seed": self.seed,
            "level": self.level,
            "coverage": cov,
            "assumptions": self.assumptions,
            "wall_s": round(wall, 2),
            "violations": len(self.violations),
        }
        os.makedirs(os.path.join(OUT, "evidence"), exist_ok=True)
        p = os.path.join(OUT, "evidence", "%s.json" % self.pid)
        with open(p, "w") as f:
            json.dump(ev, f, indent=1, default=repr)
        try:
            import jsonschema  # type: ignore

            with open("/root/.vp/EVIDENCE.schema.json") as f:
                jsonschema.validate(ev, json.load(f))
        except ImportError:
            pass
        except FileNotFoundError:
            pass
        print(
            "%s tier=%s seed=%d evaluations=%d distinct_nontrivial=%d known_excluded=%d violations=%d wall=%.1fs"
            % (self.pid, self.tier, self.seed, self.evaluations, len(self.nontrivial), sum(self.excluded_known.values()), len(self.violations), wall),
            flush=True,
        )
        for s in self.inconclusive:
            print("INCONCLUSIVE: " + s)
        return 1 if self.violations else 0


# -- process pool -------------------------------------------------------------

def pool(workers: int | None = None, recycle: int | None = None, initializer=None, initargs=()) -> cf.ProcessPoolExecutor:
    # NB: max_tasks_per_child is NOT used: on CPython 3.12.1 a ProcessPoolExecutor deadlocks when workers
    # reach it under load (observed: a 30-minute hang). Recycling is done by pmap in generations instead.
    ctx = mp.get_context("spawn")
    return cf.ProcessPoolExecutor(max_workers=workers or NPROC, mp_context=ctx, initializer=initializer, initargs=initargs)


def pmap(fn: Callable, items: Iterable, workers: int | None = None, recycle: int | None = 200, chunksize: int = 1):
    """Ordered parallel map (generator). fn must be a module-level function.
    Workers are recycled every `recycle` tasks (mypy raises the GC thresholds; long-lived workers balloon):
    the items are processed in generations of workers*recycle, each by a fresh pool."""
    items = list(items)
    if not items:
        return
    w = workers or NPROC
    gen = len(items) if not recycle else max(w, w * recycle)
    for lo in range(0, len(items), gen):
        seg = items[lo : lo + gen]
        with pool(min(w, len(seg))) as ex:
            yield from ex.map(fn, seg, chunksize=chunksize)


def harness_error(msg: str) -> "None":
    print("HARNESS-ERROR: " + msg, file=sys.stderr, flush=True)
    sys.exit(2)
