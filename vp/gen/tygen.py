"""G1 TyGen: type-directed generator of fully annotated, Any-free programs with probes.

The generator carries its own small static model (types as plain tuples, a class world, variable
environments with *believed* narrowed types) and builds expressions FOR a requested type, so programs
are accepted by construction, not by rejection sampling.  The belief model only has to be an
over-approximation of what mypy infers: a wrong belief costs a rejected program, never a false alarm
(the oracle never looks at beliefs, only at mypy's type map and the run-time values).

Public surface:
    Cfg                     feature switches / sizes
    generate(seed, cfg)     -> Program(text, probes, drivers, sigs, labels)
    perturb(program, rnd)   -> list of single-edit ill-typed neighbours (ast level)

Every `probe(e, id)` is the identity at run time; the check replaces `probe` by a recording function.
All random choices come from one random.Random(seed).
"""
from __future__ import annotations
import os as _os

# fences for two findings that are repaired in the tree (fix: 77e1094, 8965be9); kept switchable for trials
FENCE_TYPE_IS = _os.environ.get("VERIF_C01_FENCE_TYPE_IS", "0") == "1"
FENCE_LIT_TUPLE = _os.environ.get("VERIF_C01_FENCE_LIT_TUPLE", "0") == "1"


import ast
import random
from dataclasses import dataclass, field

# --------------------------------------------------------------------------- types (plain tuples)
NONE_OK = ("any-including-none-returning",)
INT, STR, BOOL, FLOAT, BYTES, NONE, OBJ, NEVER = ("int",), ("str",), ("bool",), ("float",), ("bytes",), ("none",), ("object",), ("never",)
PRIMS = (INT, STR, BOOL, FLOAT, BYTES)
Ty = tuple


def members(t: Ty) -> tuple:
    return t[1] if t[0] == "union" else (t,)


def render(t: Ty) -> str:
    k = t[0]
    if k in ("int", "str", "bool", "float", "bytes", "object"):
        return k
    if k == "none":
        return "None"
    if k == "never":
        return "NoReturn"
    if k in ("cls", "enum", "td", "proto", "tv"):
        return t[1]
    if k == "lit":
        v = t[1]
        if isinstance(v, tuple):
            return "Literal[%s.%s]" % (v[1], v[2])
        return "Literal[%r]" % (v,)
    if k == "list":
        return "list[%s]" % render(t[1])
    if k == "set":
        return "set[%s]" % render(t[1])
    if k == "seq":
        return "Sequence[%s]" % render(t[1])
    if k == "dict":
        return "dict[%s, %s]" % (render(t[1]), render(t[2]))
    if k == "tuple":
        return "tuple[%s]" % ", ".join(render(i) for i in t[1]) if t[1] else "tuple[()]"
    if k == "vtuple":
        return "tuple[%s, ...]" % render(t[1])
    if k == "vartup":  # ("vartup", prefix items, element, suffix items)
        if not t[1] and not t[3]:
            return "tuple[%s, ...]" % render(t[2])
        return "tuple[%s]" % ", ".join([render(i) for i in t[1]] + ["*tuple[%s, ...]" % render(t[2])] + [render(i) for i in t[3]])
    if k == "box":
        return "Box[%s]" % render(t[1])
    if k == "type":
        return "type[%s]" % t[1]
    if k == "call":
        return "Callable[[%s], %s]" % (", ".join(render(p) for p in t[1]), render(t[2]))
    if k == "union":
        return " | ".join(render(i) for i in t[1])
    raise ValueError(t)


def union(items) -> Ty:
    flat: list = []
    for i in items:
        for m in members(i):
            if m != NEVER and m not in flat:
                flat.append(m)
    if not flat:
        return NEVER
    if len(flat) == 1:
        return flat[0]
    flat.sort(key=lambda m: (m == NONE, render(m)))  # None last, otherwise by spelling
    return ("union", tuple(flat))


def opt(t: Ty) -> Ty:
    return union([t, NONE])


def lit(v) -> Ty:
    return ("lit", v)


def lit_base(t: Ty) -> Ty:
    v = t[1]
    if isinstance(v, tuple):
        return ("enum", v[1])
    if isinstance(v, bool):
        return BOOL
    if isinstance(v, int):
        return INT
    if isinstance(v, bytes):
        return BYTES
    return STR


def lit_code(t: Ty) -> str:
    v = t[1]
    return "%s.%s" % (v[1], v[2]) if isinstance(v, tuple) else repr(v)


HASHABLE_KINDS = ("int", "str", "bool", "bytes", "enum", "lit", "none")


def hashable(t: Ty) -> bool:
    if t[0] == "union":
        return all(hashable(m) for m in t[1])
    if t[0] == "tuple":
        return all(hashable(i) for i in t[1])
    return t[0] in HASHABLE_KINDS


# --------------------------------------------------------------------------- configuration
@dataclass
class Cfg:
    size: float = 1.0            # scales statement budgets
    iaf: bool = False            # feed ints where float is declared (known promotion/narrowing hole)
    n_funcs: tuple = (2, 4)
    n_classes: tuple = (2, 4)
    max_depth: int = 3           # nesting of control structures
    expr_depth: int = 2
    features: frozenset = frozenset(
        {"match", "try", "with", "loops", "nested", "lambda", "comp", "generic", "overload", "proto", "td", "nt", "data", "enum", "ops", "callable", "typeobj", "lit", "seq", "kwargs", "walrus", "tvfunc"}
    )
    debug_beliefs: bool = False  # emit `_bN: <belief> = var` before var probes (generator self-test)
    mypyc_safe: bool = False     # restrict to constructs mypyc compiles (drops match class-kw patterns, protocols, nested closures)

    def on(self, f: str) -> bool:
        if self.mypyc_safe and f in ("proto", "nested", "overload"):
            return False
        return f in self.features


@dataclass
class Sig:
    params: list            # [(name, Ty)]
    ret: Ty
    defaults: dict = field(default_factory=dict)   # name -> default expression text
    kwonly: int = 0          # number of trailing keyword-only params
    nokw: bool = False       # parameter names unknown (callable values): positional arguments only


@dataclass
class ClassInfo:
    name: str
    flavor: str              # plain | mixin | data | nt | exc
    bases: list
    own_fields: list         # [(name, Ty)]
    fields: list             # all fields in constructor order
    methods: dict            # visible methods: name -> Sig
    own_methods: list
    anc: list                # ancestors incl. self (names)


@dataclass
class Program:
    text: str
    probes: dict             # id -> {"form","ctx","var","decl"}
    drivers: list
    sigs: dict               # callable name -> {"params":[(name, type text, [wrong value texts])], "kwonly": n}
    labels: dict
    iaf: bool
    seed: int = 0
    edits: list = field(default_factory=list)   # prepared single-line edits: {"kind", "old", "new", "detail"}


# --------------------------------------------------------------------------- fixed, vetted library
PRELUDE = '''\
from __future__ import annotations
from typing import Callable, Generic, Iterator, Literal, NamedTuple, NoReturn, Protocol, Sequence, TypedDict, TypeVar, overload
import dataclasses
import enum

T = TypeVar("T")
U = TypeVar("U")
TS = TypeVar("TS", int, str)


def probe(x: T, i: int) -> T:
    return x


class E1(Exception):
    pass


class E2(Exception):
    pass


class E3(E1):
    pass


def maybe_raise(k: int) -> None:
    if k % 3 == 0:
        raise E1("e1")
    if k % 3 == 1 and k > 5:
        raise E2("e2")
    if k % 7 == 3:
        raise E3("e3")


def fail(msg: str) -> NoReturn:
    raise E2(msg)


def boom(k: int) -> int:
    if k % 3 == 0:
        raise ValueError("v")
    if k % 3 == 1:
        raise KeyError("k")
    return k


def ident(x: T) -> T:
    return x


def first(xs: Sequence[T], default: T) -> T:
    return xs[0] if xs else default


def pair(a: T, b: U) -> tuple[T, U]:
    return (a, b)


def apply(f: Callable[[T], U], x: T) -> U:
    return f(x)


def unwrap_or(x: T | None, d: T) -> T:
    if x is not None:
        return x
    return d


def pick(c: bool, a: T, b: T) -> T:
    return a if c else b


def mklist(a: T, b: T) -> list[T]:
    return [a, b]


def twice(x: TS) -> TS:
    return x + x


@overload
def conv(x: int) -> str: ...
@overload
def conv(x: str) -> int: ...
def conv(x: int | str) -> int | str:
    if isinstance(x, str):
        return len(x)
    return str(x)


class Box(Generic[T]):
    def __init__(self, item: T) -> None:
        self.item = item

    def get(self) -> T:
        return self.item

    def put(self, item: T) -> None:
        self.item = item

    def map(self, f: Callable[[T], U]) -> "Box[U]":
        return Box(f(self.item))


class Swallow:
    def __enter__(self) -> int:
        return 1

    def __exit__(self, et: type[BaseException] | None, ev: BaseException | None, tb: object) -> bool:
        return et is not None and issubclass(et, E1)


class Guard:
    def __enter__(self) -> str:
        return "g"

    def __exit__(self, et: type[BaseException] | None, ev: BaseException | None, tb: object) -> None:
        return None


class Vec:
    def __init__(self, x: int, y: int) -> None:
        self.x = x
        self.y = y

    def __add__(self, o: "Vec") -> "Vec":
        return Vec(self.x + o.x, self.y + o.y)

    def __radd__(self, o: int) -> "Vec":
        return Vec(self.x + o, self.y + o)

    def __mul__(self, k: int) -> "Vec":
        return Vec(self.x * k, self.y * k)

    def __rmul__(self, k: int) -> "Vec":
        return Vec(self.x * k, self.y * k)

    def __neg__(self) -> "Vec":
        return Vec(-self.x, -self.y)

    def __lt__(self, o: "Vec") -> bool:
        return (self.x, self.y) < (o.x, o.y)

    def __len__(self) -> int:
        return abs(self.x) % 3

    def __getitem__(self, i: int) -> int:
        return self.x if i % 2 == 0 else self.y

    def __contains__(self, v: int) -> bool:
        return v == self.x or v == self.y

    def __iter__(self) -> Iterator[int]:
        yield self.x
        yield self.y

'''

PRELUDE += '''
class Money:
    def __init__(self, cents: int) -> None:
        self.cents = cents

    def __iadd__(self, k: int) -> "Money":
        return Money(self.cents + k)

    def __isub__(self, k: int) -> "Money | int":
        return self.cents - k if k > self.cents else Money(self.cents - k)

    def __ior__(self, o: "Money") -> "Money":
        return Money(self.cents | o.cents)

    def __imul__(self, k: int) -> "Money":
        return Money(self.cents * k)

    def __add__(self, k: int) -> "Money":
        return Money(self.cents + k)

    def __radd__(self, k: int) -> "Money":
        return Money(self.cents + k)


class Wallet(Money):
    def owner(self) -> str:
        return "me"


class Purse(Money):
    def clasp(self) -> int:
        return 1

'''

VEC = ("cls", "Vec")
EXC = [("cls", "E1"), ("cls", "E2"), ("cls", "E3")]


# --------------------------------------------------------------------------- the world of one program
class World:
    def __init__(self, rnd: random.Random, cfg: Cfg):
        self.rnd, self.cfg = rnd, cfg
        self.classes: dict[str, ClassInfo] = {}
        self.enums: dict[str, list] = {}
        self.tds: dict[str, list] = {}
        self.protos: dict[str, tuple] = {}     # name -> (method name, Sig, [implementing class names])
        self.funcs: list = []                  # [(name, Sig, rank)] module-level generated functions
        self.method_rank: dict[str, int] = {}
        self.method_sig: dict[str, Sig] = {}
        # library classes
        self.classes["Vec"] = ClassInfo("Vec", "lib", [], [("x", INT), ("y", INT)], [("x", INT), ("y", INT)], {}, [], ["Vec"])
        for n, b in (("E1", []), ("E2", []), ("E3", ["E1"])):
            self.classes[n] = ClassInfo(n, "exc", b, [], [("msg", STR)], {}, [], [n] + b)

    # ---- relations
    def anc(self, name: str) -> list:
        return self.classes[name].anc

    def subclasses(self, name: str) -> list:
        return [c.name for c in self.classes.values() if name in c.anc]

    def sub(self, s: Ty, t: Ty, promo: bool | None = None) -> bool:
        """Generator-side subtyping; must never say yes where mypy says no.  `promo` = int usable as float
        (defaults to cfg.iaf: outside that mode float places get run-time floats only)."""
        if promo is None:
            promo = self.cfg.iaf
        if s == t or t == OBJ or s == NEVER:
            return True
        ks, kt = s[0], t[0]
        if ks == "union":
            return all(self.sub(i, t, promo) for i in s[1])
        if kt == "union":
            return any(self.sub(s, i, promo) for i in t[1])
        if ks == "lit":
            return self.sub(lit_base(s), t, promo)
        if ks == "bool":
            return kt == "int" or (kt == "float" and promo)
        if ks == "int":
            return kt == "float" and promo
        if ks == "tv":
            return self.sub(s[2], t, promo)
        if ks == "cls":
            if kt == "cls":
                return t[1] in self.anc(s[1])
            if kt == "proto":
                return any(a in self.protos[t[1]][2] for a in self.anc(s[1]))
            if kt in ("tuple", "vtuple", "seq") and self.classes[s[1]].flavor == "nt":
                return False
            return False
        if ks == "tuple":
            if kt == "tuple":
                return len(s[1]) == len(t[1]) and all(self.sub(a, b, promo) for a, b in zip(s[1], t[1]))
            if kt in ("vtuple", "seq"):
                return all(self.sub(a, t[1], promo) for a in s[1])
            return False
        if ks == "vtuple":
            return kt in ("vtuple", "seq") and self.sub(s[1], t[1], promo)
        if ks == "list":
            return kt == "seq" and self.sub(s[1], t[1], promo)
        if ks == "seq":
            return kt == "seq" and self.sub(s[1], t[1], promo)
        if ks == "str":
            return kt == "seq" and t[1] == STR
        if ks == "call":
            return kt == "call" and len(s[1]) == len(t[1]) and all(self.sub(b, a, promo) for a, b in zip(s[1], t[1])) and self.sub(s[2], t[2], promo)
        if ks == "type":
            return kt == "type" and t[1] in self.anc(s[1])
        return False

    # ---- random types
    def class_types(self) -> list:
        return [("cls", c.name) for c in self.classes.values() if c.flavor in ("plain", "data", "nt")]

    def atom_type(self) -> Ty:
        r = self.rnd
        pool = [INT, INT, STR, STR, BOOL, FLOAT, BYTES, NONE]
        cl = self.class_types()
        if cl:
            pool += [r.choice(cl), r.choice(cl), r.choice(cl)]
        if self.enums:
            pool.append(("enum", r.choice(sorted(self.enums))))
        if self.cfg.on("ops"):
            pool.append(VEC)
        return r.choice(pool)

    def rand_type(self, depth: int = 2, allow_none: bool = True) -> Ty:
        r = self.rnd
        x = r.random()
        if depth <= 0 or x < 0.38:
            t = self.atom_type()
            while t == NONE and not allow_none:
                t = self.atom_type()
            return t
        if x < 0.62:
            n = r.choice([2, 2, 3, 3, 4])
            return union([self.rand_type(depth - 1) for _ in range(n)])
        if x < 0.70:
            return ("list", self.rand_type(depth - 1, allow_none=False) if r.random() < 0.6 else self.rand_type(depth - 1))
        if x < 0.74:
            return ("dict", r.choice([INT, STR]), self.rand_type(depth - 1))
        if x < 0.78:
            t = ("tuple", tuple(self.rand_type(depth - 1) for _ in range(r.choice([1, 2, 2, 3]))))
            if FENCE_LIT_TUPLE and "Literal[" in render(t):
                # fenced off: a tuple-typed variable whose items are Literal types keeps a stale narrowed type after
                # `v = generic_call((2, 3))` (binder.assign_type erases last known values, finds the value incompatible
                # and returns early) -- known finding with its own witness replay; its downstream effects are unbounded
                self.excluded_lit_tuples = getattr(self, "excluded_lit_tuples", 0) + 1
                t = ("tuple", tuple(self.atom_type() for _ in t[1]))
            return t
        if x < 0.80:
            return ("set", r.choice([INT, STR, union([INT, STR])]))
        if x < 0.83 and self.cfg.on("lit"):
            pool = [lit(1), lit(2), lit(0), lit("a"), lit("b"), lit(""), lit(True)]
            if self.enums:
                e = r.choice(sorted(self.enums))
                pool += [lit(("enum", e, m)) for m in self.enums[e][:2]]
            return union(r.sample(pool, r.choice([1, 2, 3])))
        if x < 0.86 and self.cfg.on("callable"):
            return ("call", tuple(r.choice([INT, STR, BOOL]) for _ in range(r.choice([0, 1, 1, 2]))), r.choice([INT, STR, BOOL, NONE]))
        if x < 0.89 and self.cfg.on("generic"):
            return ("box", self.rand_type(depth - 1))
        if x < 0.91 and self.cfg.on("typeobj") and self.class_types():
            return ("type", r.choice([c for c in self.class_types() if self.classes[c[1]].flavor == "plain"] or [VEC])[1])
        if x < 0.93 and self.protos:
            return ("proto", r.choice(sorted(self.protos)))
        if x < 0.95 and self.tds:
            return ("td", r.choice(sorted(self.tds)))
        if x < 0.97 and self.cfg.on("seq"):
            return ("seq", r.choice([INT, STR, union([INT, STR]), union([INT, NONE])]))
        if x < 0.985:
            return OBJ
        return opt(self.rand_type(depth - 1, allow_none=False))

    def field_type(self) -> Ty:
        r = self.rnd
        x = r.random()
        if x < 0.5:
            return r.choice([INT, STR, BOOL, FLOAT])
        if x < 0.8:
            return union([r.choice([INT, STR, BOOL, FLOAT, BYTES, NONE]) for _ in range(2)])
        if x < 0.9:
            return ("list", r.choice([INT, STR]))
        cl = self.class_types()
        return opt(r.choice(cl)) if cl else INT

    # ---- building the class world
    def build(self) -> None:
        r, cfg = self.rnd, self.cfg
        if cfg.on("enum"):
            for i in range(r.choice([1, 1, 2])):
                self.enums["En%d" % i] = ["A", "B", "C", "D"][: r.choice([2, 3, 4])]
        nplain = r.randint(*cfg.n_classes)
        mixins = []
        for i in range(r.choice([0, 1, 1, 2])):
            name = "Mx%d" % i
            self.classes[name] = ClassInfo(name, "mixin", [], [], [], {}, [], [name])
            mixins.append(name)
        plains = []
        for i in range(nplain):
            name = "C%d" % i
            base = r.choice(plains) if plains and r.random() < 0.65 else None
            bases = [base] if base else []
            anc = [name] + (list(self.anc(base)) if base else [])
            for m in mixins:
                if r.random() < 0.3 and m not in anc:
                    bases.append(m)
                    anc.append(m)
            inherited = list(self.classes[base].fields) if base else []
            own = [("f%d_%d" % (i, j), self.field_type()) for j in range(r.choice([0, 1, 1, 2]))]
            if not base and not own:
                own = [("f%d_0" % i, self.field_type())]
            self.classes[name] = ClassInfo(name, "plain", bases, own, inherited + own, {}, [], anc)
            plains.append(name)
        if cfg.on("data"):
            for i in range(r.choice([0, 1, 1])):
                name = "D%d" % i
                own = [("d%d_%d" % (i, j), self.field_type()) for j in range(r.choice([1, 2, 3]))]
                self.classes[name] = ClassInfo(name, "data", [], own, own, {}, [], [name])
        if cfg.on("nt"):
            for i in range(r.choice([0, 1, 1])):
                name = "N%d" % i
                own = [("n%d_%d" % (i, j), r.choice([INT, STR, BOOL, opt(INT), union([INT, STR])])) for j in range(r.choice([2, 2, 3]))]
                self.classes[name] = ClassInfo(name, "nt", [], own, own, {}, [], [name])
        if cfg.on("td"):
            for i in range(r.choice([0, 1, 1])):
                self.tds["Td%d" % i] = [("k%d" % j, r.choice([INT, STR, opt(INT), ("list", INT), union([INT, STR])])) for j in range(r.choice([1, 2, 3]))]
        # methods: names m0.. ranked; a method body may only call lower-ranked methods (call graph is a DAG)
        holders = [c for c in self.classes.values() if c.flavor in ("plain", "mixin", "data")]
        nm = r.randint(1, 3)
        for k in range(nm):
            mname = "m%d" % k
            sig = Sig([("p%d" % j, self.param_type()) for j in range(r.choice([0, 1, 1, 2]))], self.ret_type())
            self.method_rank[mname] = k
            self.method_sig[mname] = sig
            owners = r.sample(holders, min(len(holders), r.choice([1, 1, 2])))
            for c in self.classes.values():  # definition order == dict order: bases first
                if c in owners or any(o.name in c.anc and o is not c for o in owners):
                    c.methods[mname] = sig
                    if c in owners or r.random() < 0.2:
                        c.own_methods.append(mname)
        if cfg.on("proto"):
            cands = [m for m in self.method_sig if any(m in c.methods for c in self.classes.values())]
            for i, m in enumerate(r.sample(cands, min(len(cands), r.choice([0, 1, 1])))):
                impl = [c.name for c in self.classes.values() if m in c.methods]
                self.protos["P%d" % i] = (m, self.method_sig[m], impl)

    def param_type(self) -> Ty:
        return self.rand_type(2)

    def ret_type(self) -> Ty:
        r = self.rnd
        return self.rand_type(1) if r.random() < 0.8 else NONE

    # ---- source of the classes (method bodies are filled in by Gen)
    def enum_src(self) -> list:
        out = []
        for e, ms in self.enums.items():
            out.append("class %s(enum.Enum):" % e)
            for i, m in enumerate(ms):
                out.append("    %s = %d" % (m, i + 1))
            out += ["", ""]
        for t, ks in self.tds.items():
            out.append("class %s(TypedDict):" % t)
            for k, ty in ks:
                out.append("    %s: %s" % (k, render(ty)))
            out += ["", ""]
        return out

    # ---- run-time values of a declared type, as source text (for driver calls)
    def values(self, t: Ty, depth: int = 2) -> list:
        r = self.rnd
        k = t[0]
        if k == "union":
            out: list = []
            if depth < 0 and NONE in t[1]:
                return ["None"]
            for m in t[1]:
                vs = self.values(m, depth)
                out += vs[: max(1, 4 // len(t[1]) + 1)]
            return out
        if k == "int":
            return ["0", "1", "-3", "7", "True", "12", "2", "5"]
        if k == "str":
            return ['""', '"a"', '"hello"', '"b"']
        if k == "bool":
            return ["True", "False"]
        if k == "float":
            return ["0.0", "1.5", "-2.25"] + (["3", "0", "True"] if self.cfg.iaf else [])
        if k == "bytes":
            return ['b""', 'b"ab"']
        if k == "none":
            return ["None"]
        if k == "object":
            return ["1", '"a"', "None", "[1]", "2.5", "(1, 'x')"] + [self.values(c, 0)[0] for c in self.class_types()[:2]]
        if k == "lit":
            return [lit_code(t)]
        if k == "enum":
            return ["%s.%s" % (t[1], m) for m in self.enums[t[1]]]
        if k == "td":
            return ["%s(%s)" % (t[1], ", ".join("%s=%s" % (kk, r.choice(self.values(ty, 0))) for kk, ty in self.tds[t[1]])) for _ in range(2)]
        if k == "proto":
            out = []
            for c in self.protos[t[1]][2]:
                if self.classes[c].flavor != "mixin":
                    out += self.values(("cls", c), depth)[:1]
            return out or ["None"]
        if k == "cls":
            out = []
            subs = [c for c in self.subclasses(t[1]) if self.classes[c].flavor != "mixin"]
            if depth <= 0:
                subs = subs[:1]  # fields only refer to earlier classes: finite
            for c in subs:
                ci = self.classes[c]
                for _ in range(2 if depth > 0 else 1):
                    out.append("%s(%s)" % (c, ", ".join(r.choice(self.values(ft, depth - 1)) for _, ft in ci.fields)))
            return out
        if k == "type":
            return [c for c in self.subclasses(t[1]) if self.classes[c].flavor != "mixin"]
        if k in ("list", "seq"):
            vs = self.values(t[1], depth - 1)
            out = ["[]", "[%s]" % r.choice(vs), "[%s, %s]" % (r.choice(vs), r.choice(vs)), "[%s]" % ", ".join(vs[:4])]
            if k == "seq":
                out.append("(%s,)" % r.choice(vs))
            return out
        if k == "set":
            vs = self.values(t[1], depth - 1)
            return ["set()", "{%s}" % r.choice(vs), "{%s, %s}" % (vs[0], vs[-1])]
        if k == "dict":
            ks, vs = self.values(t[1], 0), self.values(t[2], depth - 1)
            return ["{}", "{%s: %s}" % (r.choice(ks), r.choice(vs)), "{%s: %s, %s: %s}" % (ks[0], r.choice(vs), ks[1], r.choice(vs))]
        if k == "tuple":
            return ["(%s)" % "".join(r.choice(self.values(i, depth - 1)) + ", " for i in t[1]) for _ in range(3)] if t[1] else ["()"]
        if k == "vtuple":
            vs = self.values(t[1], depth - 1)
            return ["()", "(%s,)" % r.choice(vs), "(%s, %s)" % (r.choice(vs), r.choice(vs))]
        if k == "box":
            return ["Box[%s](%s)" % (render(t[1]), v) for v in self.values(t[1], depth - 1)[:3]]
        if k == "call":
            ps = ", ".join("a%d" % i for i in range(len(t[1])))
            out = ["lambda %s: %s" % (ps, v) for v in self.values(t[2], 0)[:2]]
            for i, p in enumerate(t[1]):
                if self.sub(p, t[2]):
                    out.append("lambda %s: a%d" % (ps, i))
            return out
        raise ValueError(t)

    def wrong_values(self, t: Ty) -> list:
        """Values that are NOT of type t (promotion-aware), for the ill-typed neighbourhood."""
        cands = [(NONE, "None"), (STR, '"zz"'), (INT, "7"), (("list", INT), "[1]"), (FLOAT, "1.5")]
        if any(m[0] in ("tv", "proto", "seq") for m in members(t)):
            return []
        return [code for ty, code in cands if not self.sub(ty, t, True) and not (ty[0] == "list" and any(m[0] in ("list", "seq", "object") for m in members(t)))]


# --------------------------------------------------------------------------- environments
class Var:
    __slots__ = ("name", "decl", "cur", "frozen", "form")

    def __init__(self, name: str, decl: Ty, cur: Ty | None = None, frozen: bool = False, form: str = "decl"):
        self.name, self.decl, self.cur, self.frozen, self.form = name, decl, decl if cur is None else cur, frozen, form

    def copy(self) -> "Var":
        return Var(self.name, self.decl, self.cur, self.frozen, self.form)


class Env:
    def __init__(self, ret: Ty, rank: int, mrank: int | None):
        self.vars: dict[str, Var] = {}
        self.ret, self.rank, self.mrank = ret, rank, mrank
        self.ctx: tuple = ()
        self.loop = 0
        self.lfuncs: list = []          # nested functions visible here: [(name, Sig)]
        self.assigned: set = set()      # names assigned since the last checkpoint (try/with bookkeeping)
        self.dead = False
        self.nofin = False              # inside finally: no narrowing-sensitive probes
        self.regions: tuple = ()        # enclosing control-flow regions, outermost first: ((id, form), ...)

    def clone(self) -> "Env":
        e = Env(self.ret, self.rank, self.mrank)
        e.vars = {k: v.copy() for k, v in self.vars.items()}
        e.ctx, e.loop, e.lfuncs, e.dead, e.nofin = self.ctx, self.loop, list(self.lfuncs), self.dead, self.nofin
        e.regions = self.regions
        e.assigned = self.assigned  # shared on purpose: assignments in nested blocks count
        return e

    def add(self, v: Var) -> Var:
        self.vars[v.name] = v
        return v


def mentions(code: str, name: str) -> bool:
    import re

    return re.search(r"\b%s\b" % re.escape(name), code) is not None


def merge_envs(base: Env, branches: list, form: str) -> None:
    """After a branching statement: belief = union of the beliefs at the end of the live branches."""
    live = [b for b in branches if not b.dead]
    if not live:
        base.dead = True
        return
    for name, v in base.vars.items():
        curs = [b.vars[name].cur for b in live if name in b.vars]
        new = union(curs)
        if len(members(new)) > 6:
            new = v.decl
        if new != v.cur or any(b.vars[name].form != v.form for b in live):
            v.form = form
        v.cur = new


# --------------------------------------------------------------------------- the generator proper
class Gen:
    def __init__(self, seed: int, cfg: Cfg):
        self.rnd = random.Random(seed)
        self.cfg = cfg
        self.w = World(self.rnd, cfg)
        self.out: list[str] = []
        self.ind = 0
        self.probes: dict = {}
        self.npid = 0
        self.nuniq = 0
        self.labels: dict = {}
        self.tvars: dict = {}    # bounded TypeVars declared for generated generic functions

    # ---- small helpers
    def lab(self, k: str, n: int = 1) -> None:
        self.labels[k] = self.labels.get(k, 0) + n

    def fresh(self, p: str = "v") -> str:
        self.nuniq += 1
        return "%s%d" % (p, self.nuniq)

    def emit(self, line: str) -> None:
        self.out.append("    " * self.ind + line)

    def enter(self, env: Env, form: str) -> None:
        """env is the environment of a new control-flow region (branch, loop body, handler ...)."""
        self.nregion = getattr(self, "nregion", 0) + 1
        env.regions = env.regions + ((self.nregion, form),)

    def probe(self, code: str, env: Env, var: Var | None = None, form: str | None = None) -> str:
        self.npid += 1
        if self.cfg.debug_beliefs and var is not None and var.cur != NEVER and code == var.name and "comp" not in env.ctx:
            self.emit("_b%d: %s = %s  # belief %s" % (self.npid, render(var.cur), var.name, var.form))
        self.probes[self.npid] = {
            "form": form or (var.form if var else "expr"),
            "ctx": "/".join(env.ctx),
            "var": var.name if var else None,
            "decl": render(var.decl) if var else None,
            "regions": [list(x) for x in env.regions],
        }
        return "probe(%s, %d)" % (code, self.npid)

    def vars_of(self, env: Env, t: Ty) -> list:
        return [v for v in env.vars.values() if v.cur != NEVER and self.w.sub(v.cur, t)]

    def vars_kind(self, env: Env, kinds: tuple) -> list:
        return [v for v in env.vars.values() if v.cur[0] in kinds]

    def e(self, t: Ty, env: Env, d: int) -> str:
        return self.expr(t, env, d)[0]

    # ---- atoms (always possible; end of recursion)
    def atom(self, t: Ty, env: Env) -> tuple:
        r, k = self.rnd, t[0]
        if k == "union":
            return self.atom(r.choice(t[1]), env)
        if k == "int":
            return (r.choice(["0", "1", "2", "3", "5", "-1", "10", "7"]) if r.random() > 0.06 else r.choice(["True", "False"])), INT
        if k == "str":
            return r.choice(['""', '"a"', '"b"', '"xy"', '"hello"', '"A b"']), STR
        if k == "bool":
            if r.random() < 0.6:
                # prefer conditions that depend on run-time values over constants
                iv = [v for v in env.vars.values() if v.cur in (INT, STR, BOOL) and v.form != "counter"]
                if iv:
                    v = r.choice(iv)
                    if v.cur == INT:
                        return r.choice(["(%s // 2 > 0)", "(%s > 1)", "(%s <= 0)", "(%s != 3)"]) % v.name, BOOL
                    if v.cur == STR:
                        return r.choice(['(%s != "")', '(len(%s) > 1)', '(%s < "b")']) % v.name, BOOL
                    return v.name, BOOL
            return r.choice(["True", "False"]), BOOL
        if k == "float":
            if self.cfg.iaf and r.random() < 0.4:
                return r.choice(["0", "1", "4", "True"]), FLOAT
            return r.choice(["0.0", "1.5", "2.0", "-0.5", "3.25"]), FLOAT
        if k == "bytes":
            return r.choice(['b""', 'b"a"', 'b"xyz"']), BYTES
        if k == "none":
            return "None", NONE
        if k == "object":
            return self.atom(r.choice([INT, STR, NONE, FLOAT, BOOL] + self.w.class_types()[:3]), env)
        if k == "lit":
            return lit_code(t), t
        if k == "enum":
            m = r.choice(self.w.enums[t[1]])
            return "%s.%s" % (t[1], m), lit(("enum", t[1], m))
        if k == "cls":
            subs = [c for c in self.w.subclasses(t[1]) if self.w.classes[c].flavor != "mixin"]
            c = t[1] if (t[1] in subs and r.random() < 0.6) else r.choice(subs)
            ci = self.w.classes[c]
            args = [self.atom(ft, env)[0] for _, ft in ci.fields]
            if ci.flavor == "exc":
                args = [r.choice(['"x"', '"boom"'])]
            return "%s(%s)" % (c, ", ".join(args)), ("cls", c)
        if k == "proto":
            impl = [c for c in self.w.protos[t[1]][2] if self.w.classes[c].flavor != "mixin"]
            if not impl:
                raise GenFail("protocol without concrete implementation")
            return self.atom(("cls", r.choice(impl)), env)
        if k == "td":
            return "%s(%s)" % (t[1], ", ".join("%s=%s" % (kk, self.atom(ty, env)[0]) for kk, ty in self.w.tds[t[1]])), t
        if k == "type":
            subs = [c for c in self.w.subclasses(t[1]) if self.w.classes[c].flavor != "mixin"]
            return r.choice(subs), t
        if k in ("list", "seq"):
            n = r.choice([0, 1, 2, 3])
            if k == "seq" and r.random() < 0.3:
                return "(%s)" % "".join(self.atom(t[1], env)[0] + ", " for _ in range(n)), t
            return "[%s]" % ", ".join(self.atom(t[1], env)[0] for _ in range(n)), t
        if k == "set":
            n = r.choice([1, 2, 3])
            return "{%s}" % ", ".join(self.atom(t[1], env)[0] for _ in range(n)), t
        if k == "dict":
            n = r.choice([0, 1, 2])
            return "{%s}" % ", ".join("%s: %s" % (self.atom(t[1], env)[0], self.atom(t[2], env)[0]) for _ in range(n)), t
        if k == "tuple":
            return "(%s)" % "".join(self.atom(i, env)[0] + ", " for i in t[1]), t
        if k == "vtuple":
            return "(%s)" % "".join(self.atom(t[1], env)[0] + ", " for _ in range(r.choice([0, 1, 2]))), t
        if k == "box":
            return "Box[%s](%s)" % (render(t[1]), self.atom(t[1], env)[0]), t
        if k == "call":
            return self.lam(t, env, 0), t
        if k == "tv":
            vs = self.vars_of(env, t)
            if not vs:
                raise GenFail("no value of type variable")
            return r.choice(vs).name, t
        raise ValueError(t)

    def lam(self, t: Ty, env: Env, d: int) -> str:
        ps = [self.fresh("q") for _ in t[1]]
        e2 = env.clone()
        # a lambda that calls a rebindable callable variable could end up calling itself
        e2.vars = {k: v for k, v in e2.vars.items() if not any(m[0] == "call" for m in members(v.decl))}
        e2.lfuncs = []
        for v in e2.vars.values():
            v.cur = v.decl  # a lambda body runs later: narrowing of captured variables is not relied on
        for p, pt in zip(ps, t[1]):
            e2.add(Var(p, pt, frozen=True))
        body = self.e(t[2], e2, d) if t[2] != NONE else "None"
        return "(lambda %s: %s)" % (", ".join(ps), body) if ps else "(lambda: %s)" % body

    # ---- calls
    def args(self, sig: Sig, env: Env, d: int) -> str:
        r = self.rnd
        n = len(sig.params)
        npos = n - sig.kwonly
        cut = npos if (not self.cfg.on("kwargs") or sig.nokw or r.random() < 0.55) else r.randint(0, npos)
        pos, kw = [], []
        for i, (pn, pt) in enumerate(sig.params):
            if pn in sig.defaults and r.random() < 0.3:
                if i < cut:
                    cut = i  # everything after an omitted positional goes by keyword
                continue
            code = self.e(pt, env, d)
            if i < cut:
                pos.append(code)
            else:
                kw.append("%s=%s" % (pn, code))
        if kw:
            self.lab("calls_with_keywords")
            if r.random() < 0.3:
                r.shuffle(kw)
        return ", ".join(pos + kw)

    def callables(self, t: Ty, env: Env) -> list:
        """Things whose call yields a subtype of t: (callee text, Sig)."""
        w, out = self.w, []
        none_ok = t == NONE_OK
        if none_ok:
            t = OBJ
        for name, sig, rank in w.funcs:
            if rank < env.rank and w.sub(sig.ret, t) and (none_ok or sig.ret != NONE):
                out.append((name, sig))
        for name, sig in env.lfuncs:
            if w.sub(sig.ret, t) and (none_ok or sig.ret != NONE):
                out.append((name, sig))
        for v in env.vars.values():
            c = v.cur
            if c[0] == "tv":
                c = c[2]
            if c[0] == "cls":
                for m, sig in w.classes[c[1]].methods.items():
                    if (env.mrank is None or w.method_rank[m] < env.mrank) and w.sub(sig.ret, t) and (none_ok or sig.ret != NONE):
                        out.append(("%s.%s" % (v.name, m), sig))
            elif c[0] == "proto":
                m, sig, _ = w.protos[c[1]]
                if (env.mrank is None or w.method_rank[m] < env.mrank) and w.sub(sig.ret, t) and (none_ok or sig.ret != NONE):
                    out.append(("%s.%s" % (v.name, m), sig))
            elif c[0] == "call" and w.sub(c[2], t) and env.mrank is None and (none_ok or c[2] != NONE):
                out.append((v.name, Sig([("_%d" % i, p) for i, p in enumerate(c[1])], c[2], nokw=True)))
        return out

    def attr_reads(self, t: Ty, env: Env) -> list:
        w, out = self.w, []
        for v in env.vars.values():
            c = v.cur[2] if v.cur[0] == "tv" else v.cur
            if c[0] == "cls":
                ci = w.classes[c[1]]
                for i, (f, ft) in enumerate(ci.fields):
                    if ci.flavor == "exc":
                        continue
                    if w.sub(ft, t):
                        out.append(("%s.%s" % (v.name, f), ft))
                        if ci.flavor == "nt":
                            out.append(("%s[%d]" % (v.name, i), ft))
            elif c[0] == "box" and w.sub(c[1], t):
                # Box.put mutates: a bare `b.item` read would be narrowed by mypy in a test and stay narrowed across
                # `b.put(..)` (attribute narrowing is outside the statement); reads go through the method
                out.append(("%s.get()" % v.name, c[1]))
            elif c[0] == "tuple":
                for i, it in enumerate(c[1]):
                    if w.sub(it, t):
                        out.append(("%s[%d]" % (v.name, i), it))
            elif c[0] == "td":
                for kk, kt in w.tds[c[1]]:
                    if w.sub(kt, t):
                        out.append(('%s["%s"]' % (v.name, kk), kt))
            elif c[0] == "enum" and t == STR:
                out.append(("%s.name" % v.name, STR))
            elif c[0] in ("list", "seq", "vtuple") and w.sub(c[1], t) and (t[0] != "union" or c[1] == t):
                d_, _ = self.atom(t, env) if t[0] != "tv" else (v.name + "[0]", t)
                out.append(("(%s[0] if %s else %s)" % (v.name, v.name, d_), union([c[1], t]) if t[0] != "tv" else t))
            elif c[0] == "dict" and w.sub(c[2], t) and c[1] in (INT, STR):
                k_ = self.atom(c[1], env)[0]
                out.append(("%s.get(%s, %s)" % (v.name, k_, self.atom(t, env)[0]), union([c[2], t])))
        return out


class GenFail(Exception):
    """The generator painted itself into a corner (counted, the program is dropped)."""


SIMPLE_KINDS = ("int", "str", "bool", "float", "bytes", "none", "cls", "enum", "lit")


class ExprGen(Gen):
    """expr(t, env, d) -> (code, believed type <= t)."""

    def var_read(self, v: Var) -> tuple:
        return v.name, v.cur

    def expr(self, t: Ty, env: Env, d: int) -> tuple:
        r, w = self.rnd, self.w
        k = t[0]
        vs = self.vars_of(env, t)
        if k == "union":
            x = r.random()
            if vs and x < 0.4:
                return self.var_read(r.choice(vs))
            if d > 0 and x < 0.55:
                cs = self.callables(t, env)
                if cs:
                    name, sig = r.choice(cs)
                    return "%s(%s)" % (name, self.args(sig, env, d - 1)), sig.ret
            if d > 0 and x < 0.60:
                a, b = self.expr(t, env, d - 1), self.expr(t, env, d - 1)
                return "(%s if %s else %s)" % (a[0], self.e(BOOL, env, d - 1), b[0]), union([a[1], b[1]])
            if d > 0 and x < 0.70 and NONE in t[1] and len(t[1]) == 2:
                # `a or b` / `a and b` over Optional operands (truthiness narrowing inside expressions)
                a, b = self.expr(t, env, d - 1), self.expr(t, env, d - 1)
                return "(%s %s %s)" % (a[0], r.choice(["or", "and"]), b[0]), t
            return self.expr(r.choice(t[1]), env, d)
        if k == "object":
            return self.expr(w.rand_type(1), env, d)
        if k == "tv":
            if not vs:
                raise GenFail("no value of type variable")
            if d > 0 and r.random() < 0.3 and self.cfg.on("generic"):
                return "ident(%s)" % r.choice(vs).name, t
            return r.choice(vs).name, t
        if d <= 0:
            if vs and r.random() < 0.6:
                return self.var_read(r.choice(vs))
            return self.atom(t, env)
        x = r.random()
        if vs and x < 0.25:
            return self.var_read(r.choice(vs))
        if x < 0.40:
            cs = self.callables(t, env)
            if cs:
                name, sig = r.choice(cs)
                self.lab("expr_call")
                return "%s(%s)" % (name, self.args(sig, env, d - 1)), sig.ret
        if x < 0.50:
            ars = self.attr_reads(t, env)
            if ars:
                self.lab("expr_attr_or_index")
                return r.choice(ars)
        if x < 0.58 and self.cfg.on("generic") and k in SIMPLE_KINDS and k not in ("none", "lit"):
            return self.generic_wrap(t, env, d)
        if x < 0.60:
            c = self.e(BOOL, env, d - 1)
            a, b = self.expr(t, env, d - 1), self.expr(t, env, d - 1)
            return "(%s if %s else %s)" % (a[0], c, b[0]), union([a[1], b[1]])
        if x < 0.66:
            o = [v for v in env.vars.values() if v.cur[0] == "union" and len(v.cur[1]) == 2 and NONE in v.cur[1] and w.sub(union([m for m in v.cur[1] if m != NONE]), t)]
            if o and k in ("cls", "list", "tuple", "box", "call", "enum"):  # always-truthy or harmlessly-falsy kinds
                v = r.choice(o)
                if k in ("cls",) and v.cur[1][0][0] == "cls" and self.always_truthy(v.cur[1][0]):
                    return "(%s or %s)" % (v.name, self.e(t, env, d - 1)), t
                return "(%s if %s is not None else %s)" % (v.name, v.name, self.e(t, env, d - 1)), t
        fn = getattr(self, "x_" + k, None)
        if fn is not None:
            res = fn(t, env, d)
            if res is not None:
                return res
        if vs and r.random() < 0.5:
            return self.var_read(r.choice(vs))
        return self.atom(t, env)

    def always_truthy(self, c: Ty) -> bool:
        return c[0] == "cls" and self.w.classes[c[1]].flavor in ("plain", "data") and c[1] != "Vec"

    def generic_wrap(self, t: Ty, env: Env, d: int) -> tuple:
        r = self.rnd
        self.lab("expr_generic_call")
        a = self.expr(t, env, d - 1)
        ch = r.randrange(8)
        if ch == 0:
            return "ident(%s)" % a[0], a[1]
        if ch == 1:
            b = self.expr(t, env, d - 1)
            return "pick(%s, %s, %s)" % (self.e(BOOL, env, d - 1), a[0], b[0]), t
        if ch == 2:
            o = self.vars_of(env, opt(t))
            src = r.choice(o).name if o and r.random() < 0.7 else r.choice(["None", a[0]])
            return "unwrap_or(%s, %s)" % (src, self.e(t, env, d - 1)), t
        if ch == 3:
            ls = [v for v in env.vars.values() if v.cur[0] in ("list", "seq", "vtuple") and self.w.sub(v.cur[1], t)]
            if ls:
                return "first(%s, %s)" % (r.choice(ls).name, a[0]), t
            return "first([%s], %s)" % (a[0], self.e(t, env, d - 1)), t
        if ch == 4 and self.cfg.on("lambda"):
            s = r.choice([INT, STR, BOOL])
            return "apply(%s, %s)" % (self.lam(("call", (s,), t), env, d - 1), self.e(s, env, d - 1)), t
        if ch == 5:
            return "Box[%s](%s).get()" % (render(t), a[0]), t
        if ch == 6:
            b = self.expr(r.choice([INT, STR, NONE]), env, 0)
            return ("pair(%s, %s)[0]" % (a[0], b[0]), a[1]) if r.random() < 0.5 else ("pair(%s, %s)[1]" % (b[0], a[0]), a[1])
        if ch == 7 and t in (INT, STR) and self.cfg.on("overload"):
            return ("twice(%s)" % a[0], t) if r.random() < 0.5 else ("conv(%s)" % self.e(STR if t == INT else INT, env, d - 1), t)
        return "ident(%s)" % a[0], a[1]

    # ---- per kind
    def x_int(self, t, env, d):
        r = self.rnd
        e = lambda ty: self.e(ty, env, d - 1)
        ch = r.randrange(14)
        if ch == 0:
            return "(%s %s %s)" % (e(INT), r.choice(["+", "-", "+"]), e(INT)), INT
        if ch == 1:
            return "(%s %s %s)" % (e(INT), r.choice(["*", "//", "//"]), r.choice(["2", "3", "7"])), INT
        if ch == 2:
            vs = self.vars_kind(env, ("str", "list", "dict", "set", "tuple", "bytes", "vtuple", "seq"))
            return "len(%s)" % (r.choice(vs).name if vs and r.random() < 0.7 else e(STR)), INT
        if ch == 3:
            return "%s(%s, %s)" % (r.choice(["max", "min"]), e(INT), e(INT)), INT
        if ch == 4:
            return "%s(%s)" % (r.choice(["abs", "int", "-"]), e(INT)), INT
        if ch == 5:
            return "int(%s)" % e(r.choice([BOOL, FLOAT])), INT
        if ch == 6:
            vs = [v for v in env.vars.values() if v.cur in (("list", INT), ("seq", INT), ("vtuple", INT), ("set", INT), ("list", BOOL))]
            if vs:
                return "sum(%s)" % r.choice(vs).name, INT
            # typeshed types sum(Iterable[T]) as T | Literal[0]: with Literal-typed items that is not an upper
            # bound of the result (typeshed-level unsoundness, kept out of the vetted surface) -> force plain ints
            return "sum([%s + 0, %s + 0])" % (e(INT), e(INT)), INT
        if ch == 7:
            return "%s.%s(%s)" % (self.paren(e(STR)), r.choice(["count", "find"]), e(STR)), INT
        if ch == 8 and self.cfg.on("ops"):
            vs = self.vars_of(env, VEC)
            v = r.choice(vs).name if vs else self.atom(VEC, env)[0]
            return r.choice(["%s[%s]" % (v, e(INT)), "len(%s)" % v, "%s.x" % v]), INT
        if ch == 9:
            return "(%s + %s)" % (e(BOOL), e(INT)), INT  # bool.__add__(int) resolves through int
        if ch == 10 and self.cfg.on("walrus"):
            n = self.fresh("w")
            return "((%s := %s) + %s)" % (n, e(INT), n), INT
        if ch == 11:
            return "(%s ** 2)" % self.rnd.choice(["2", "3", "-1", "True"]), INT
        if ch == 12:
            return "(%s %s %s)" % (e(INT), r.choice(["&", "|", "^"]), e(INT)), INT
        return None

    def paren(self, code: str) -> str:
        return code if code.isidentifier() or code.endswith(")") or code.endswith('"') and not code.startswith("-") else "(%s)" % code

    def x_str(self, t, env, d):
        r = self.rnd
        e = lambda ty: self.e(ty, env, d - 1)
        ch = r.randrange(11)
        if ch == 0:
            return "(%s + %s)" % (e(STR), e(STR)), STR
        if ch == 1:
            return "%s.%s()" % (self.paren(e(STR)), r.choice(["upper", "lower", "strip", "title"])), STR
        if ch == 2:
            return "%s(%s)" % (r.choice(["str", "repr"]), e(self.w.rand_type(1))), STR
        if ch == 3:
            return 'f"{%s}-{%s!r}"' % (e(r.choice([INT, STR, FLOAT, BOOL])).replace('"', "'"), e(r.choice([INT, NONE, BOOL])).replace('"', "'")), STR
        if ch == 4:
            return "%s[%s:%s]" % (self.paren(e(STR)), r.choice(["", "1", "0"]), r.choice(["", "2", "-1"])), STR
        if ch == 5:
            return "(%s * %s)" % (e(STR), r.choice(["0", "1", "2"])), STR
        if ch == 6:
            vs = self.vars_of(env, ("list", STR)) + self.vars_of(env, ("seq", STR))
            return '"-".join(%s)' % (r.choice(vs).name if vs else "[%s, %s]" % (e(STR), e(STR))), STR
        if ch == 7:
            return "%s.replace(%s, %s)" % (self.paren(e(STR)), e(STR), e(STR)), STR
        if ch == 8:
            return "%s.decode()" % self.paren(e(BYTES)) if r.random() < 0.3 else "str(%s)" % e(INT), STR
        if ch == 9 and self.w.enums:
            en = r.choice(sorted(self.w.enums))
            return "%s.name" % self.paren(e(("enum", en))), STR
        return None

    def x_bool(self, t, env, d):
        r, w = self.rnd, self.w
        e = lambda ty: self.e(ty, env, d - 1)
        ch = r.randrange(12)
        if ch == 0:
            ty = r.choice([INT, INT, STR, FLOAT])
            return "(%s %s %s)" % (e(ty), r.choice(["<", "<=", ">", ">=", "==", "!="]), e(ty)), BOOL
        if ch == 1:
            return "(not %s)" % e(r.choice([BOOL, INT, STR, opt(INT)])), BOOL
        if ch == 2:
            return "(%s %s %s)" % (e(BOOL), r.choice(["and", "or"]), e(BOOL)), BOOL
        if ch == 3:
            vs = [v for v in env.vars.values() if v.cur[0] == "union" or v.cur == OBJ]
            if vs:
                v = r.choice(vs)
                tests = [m for m in members(v.cur) if m[0] in ("int", "str", "bool", "bytes", "cls")] or [INT]
                return "isinstance(%s, %s)" % (v.name, render(r.choice(tests))), BOOL
        if ch == 4:
            ty = r.choice([INT, STR])
            vs = self.vars_of(env, ("list", ty)) + self.vars_of(env, ("set", ty))
            return "(%s in %s)" % (e(ty), r.choice(vs).name if vs else "[%s, %s]" % (e(ty), e(ty))), BOOL
        if ch == 5:
            return "%s.%s(%s)" % (self.paren(e(STR)), r.choice(["startswith", "endswith"]), e(STR)), BOOL
        if ch == 6:
            return "bool(%s)" % e(r.choice([INT, STR, ("list", INT), opt(STR)])), BOOL
        if ch == 7:
            vs = [v for v in env.vars.values() if NONE in members(v.cur)]
            if vs:
                return "(%s %s None)" % (r.choice(vs).name, r.choice(["is", "is not"])), BOOL
        if ch == 8 and self.cfg.on("ops"):
            return "(%s < %s)" % (e(VEC), e(VEC)), BOOL
        if ch == 9 and self.cfg.on("ops"):
            return "(%s in %s)" % (e(INT), e(VEC)), BOOL
        if ch == 10:
            return "(%s < %s < %s)" % (e(INT), e(INT), e(INT)), BOOL
        return None

    def x_float(self, t, env, d):
        r = self.rnd
        e = lambda ty: self.e(ty, env, d - 1)
        ch = r.randrange(9)
        if ch == 0:
            return "(%s %s %s)" % (e(FLOAT), r.choice(["+", "-", "*"]), e(FLOAT)), FLOAT
        if ch == 1:
            return "(%s / %s)" % (e(r.choice([FLOAT, INT])), r.choice(["2.0", "4", "0.5", "3"])), FLOAT
        if ch == 2:
            return "float(%s)" % e(r.choice([INT, BOOL, FLOAT])), FLOAT
        if ch == 3:
            return "abs(%s)" % e(FLOAT), FLOAT
        if ch == 4:
            return "(%s * %s)" % (e(INT), e(FLOAT)), FLOAT
        if ch == 5:
            return "(%s + %s)" % (e(FLOAT), e(INT)), FLOAT
        if ch == 6:
            return "%s(%s, %s)" % (r.choice(["max", "min"]), e(FLOAT), e(FLOAT)), FLOAT
        if ch == 7:
            return "round(%s, 1)" % e(FLOAT), FLOAT
        return None

    def x_bytes(self, t, env, d):
        r = self.rnd
        e = lambda ty: self.e(ty, env, d - 1)
        ch = r.randrange(4)
        if ch == 0:
            return "(%s + %s)" % (e(BYTES), e(BYTES)), BYTES
        if ch == 1:
            return "%s.encode()" % self.paren(e(STR)), BYTES
        if ch == 2:
            return "%s[:%s]" % (self.paren(e(BYTES)), r.choice(["1", "2"])), BYTES
        return None

    def x_cls(self, t, env, d):
        r, w = self.rnd, self.w
        if t == VEC and r.random() < 0.6:
            e = lambda ty: self.e(ty, env, d - 1)
            ch = r.randrange(6)
            return [
                "(%s + %s)" % (e(VEC), e(VEC)),
                "(%s + %s)" % (e(INT), e(VEC)),
                "(%s * %s)" % (e(VEC), e(INT)),
                "(%s * %s)" % (e(INT), e(VEC)),
                "(-%s)" % e(VEC),
                "Vec(%s, %s)" % (e(INT), e(INT)),
            ][ch], VEC
        subs = [c for c in w.subclasses(t[1]) if w.classes[c].flavor != "mixin"]
        if not subs:
            return None
        c = r.choice(subs)
        ci = w.classes[c]
        if ci.flavor in ("exc", "lib"):
            return None
        sig = Sig(list(ci.fields), ("cls", c))
        return "%s(%s)" % (c, self.args(sig, env, d - 1)), ("cls", c)

    def x_list(self, t, env, d):
        r, w = self.rnd, self.w
        el = t[1]
        e = lambda ty: self.e(ty, env, d - 1)
        ch = r.randrange(9)
        same = self.vars_of(env, t)
        if ch == 0:
            return "[%s]" % ", ".join(e(el) for _ in range(r.choice([1, 2, 3]))), t
        if ch == 1 and self.cfg.on("comp"):
            return self.comp(t, env, d), t
        if ch == 2 and same:
            return "(%s + %s)" % (r.choice(same).name, r.choice(same).name), t
        if ch == 3 and same:
            return "%s[%s:]" % (r.choice(same).name, r.choice(["", "1"])), t
        if ch == 4 and el in (INT, STR) and same:
            return "sorted(%s)" % r.choice(same).name, t
        if ch == 5 and el == STR:
            return "%s.split()" % self.paren(e(STR)), t
        if ch == 6 and el == INT:
            return r.choice(["list(range(%s))" % r.choice(["0", "2", "3"]), "list(%s)" % e(VEC) if self.cfg.on("ops") else "[1]"]), t
        if ch == 7 and el[0] in SIMPLE_KINDS and self.cfg.on("generic"):
            a = e(el)
            return "mklist(%s, %s)" % (a, e(el)), t
        if ch == 8 and same:
            return "list(%s)" % r.choice(same).name, t
        return None

    def x_seq(self, t, env, d):
        r = self.rnd
        if r.random() < 0.5:
            return self.expr(("list", t[1]), env, d)[0], t
        if t[1] == STR and r.random() < 0.3:
            return self.e(STR, env, d - 1), t
        return "(%s)" % "".join(self.e(t[1], env, d - 1) + ", " for _ in range(r.choice([1, 2]))), t

    def comp(self, t: Ty, env: Env, d: int) -> str:
        """List comprehension producing list[el]; the loop variable may get probed / narrowed in the filter."""
        r = self.rnd
        el = t[1]
        srcs = [v for v in env.vars.values() if v.cur[0] in ("list", "set", "seq", "vtuple") or v.cur == STR]
        n = self.fresh("c")
        if srcs and r.random() < 0.7:
            s = r.choice(srcs)
            it, ity = s.name, (STR if s.cur == STR else s.cur[1])
        else:
            it, ity = "range(%s)" % r.choice(["2", "3", "4"]), INT
        e2 = env.clone()
        v = e2.add(Var(n, ity, frozen=True))
        cond = ""
        if r.random() < 0.5:
            if ity[0] == "union" and r.random() < 0.7:
                c = self.narrow_test(v, e2)
                if c is not None:
                    code, yes, _no, form = c
                    if yes != NEVER:
                        v.cur, v.form = yes, form + "+"
                        cond = " if " + code
            if not cond:
                cond = " if " + self.e(BOOL, e2, d - 1)
        e2.ctx = env.ctx + ("comp",)
        body = self.e(el, e2, d - 1)
        if r.random() < 0.4 and self.w.sub(v.cur, el) and v.cur[0] != "tv":
            body = self.probe(n, e2, v)
        self.lab("comprehensions")
        return "[%s for %s in %s%s]" % (body, n, it, cond)

    def x_set(self, t, env, d):
        return "{%s}" % ", ".join(self.e(t[1], env, d - 1) for _ in range(self.rnd.choice([1, 2]))), t

    def x_dict(self, t, env, d):
        r = self.rnd
        if r.random() < 0.3 and self.cfg.on("comp"):
            n = self.fresh("c")
            e2 = env.clone()
            e2.add(Var(n, INT, frozen=True))
            kx = n if t[1] == INT else "str(%s)" % n
            return "{%s: %s for %s in range(%s)}" % (kx, self.e(t[2], e2, d - 1), n, r.choice(["1", "2", "3"])), t
        return "{%s}" % ", ".join("%s: %s" % (self.e(t[1], env, 0), self.e(t[2], env, d - 1)) for _ in range(r.choice([1, 2]))), t

    def x_tuple(self, t, env, d):
        r = self.rnd
        if len(t[1]) == 2 and r.random() < 0.2 and self.cfg.on("generic") and all(i[0] in SIMPLE_KINDS and i[0] != "lit" for i in t[1]):
            a, b = self.expr(t[1][0], env, d - 1), self.expr(t[1][1], env, d - 1)
            return "pair(%s, %s)" % (a[0], b[0]), t
        return "(%s)" % "".join(self.e(i, env, d - 1) + ", " for i in t[1]), t

    def x_vtuple(self, t, env, d):
        vs = self.vars_of(env, ("list", t[1]))
        if vs and self.rnd.random() < 0.5:
            return "tuple(%s)" % self.rnd.choice(vs).name, t
        return "(%s)" % "".join(self.e(t[1], env, d - 1) + ", " for _ in range(self.rnd.choice([0, 1, 2, 3]))), t

    def x_box(self, t, env, d):
        r = self.rnd
        if r.random() < 0.25 and self.cfg.on("lambda") and t[1][0] in SIMPLE_KINDS and t[1][0] != "lit":
            s = r.choice([INT, STR])
            return "Box[%s](%s).map(%s)" % (render(s), self.e(s, env, d - 1), self.lam(("call", (s,), t[1]), env, d - 1)), t
        return "Box[%s](%s)" % (render(t[1]), self.e(t[1], env, d - 1)), t

    def x_call(self, t, env, d):
        r, w = self.rnd, self.w
        cands = []
        for name, sig, rank in w.funcs:
            if rank < env.rank and not sig.kwonly and w.sub(("call", tuple(p for _, p in sig.params), sig.ret), t):
                cands.append(name)
        for name, sig in env.lfuncs:
            if not sig.kwonly and w.sub(("call", tuple(p for _, p in sig.params), sig.ret), t):
                cands.append(name)
        for v in env.vars.values():
            if v.cur[0] == "cls" and env.mrank is None:
                for m, sig in w.classes[v.cur[1]].methods.items():
                    if w.sub(("call", tuple(p for _, p in sig.params), sig.ret), t):
                        cands.append("%s.%s" % (v.name, m))
        if cands and r.random() < 0.5:
            self.lab("function_values")
            return r.choice(cands), t
        if self.cfg.on("lambda"):
            return self.lam(t, env, d - 1), t
        return None

    def x_type(self, t, env, d):
        vs = self.vars_of(env, ("cls", t[1]))
        if vs and self.rnd.random() < 0.5:
            return "type(%s)" % self.rnd.choice(vs).name, t
        return None


RT_PRIM = {"int": "int", "str": "str", "bool": "bool", "float": "float", "bytes": "bytes"}
CONTAINER_RT = {"list": "list", "dict": "dict", "set": "set", "tuple": "tuple", "vtuple": "tuple"}


class CondGen(ExprGen):
    """Narrowing tests on local variables + the generator's (over-approximating) belief of their effect."""

    # relation of a union member m to a run-time class test C (a Ty: prim / cls / enum / bare container)
    def rel(self, m: Ty, c: Ty) -> str:
        w = self.w
        if m[0] == "lit":
            m = lit_base(m)
        mk, ck = m[0], c[0]
        if mk == "object":
            return "super" if ck not in ("bare", "boxbare") else "opaque"
        if mk in ("none", "call", "td", "type"):
            return "disjoint" if mk == "none" else "opaque"
        if mk in ("tv", "proto", "seq"):
            return "opaque"
        if mk in RT_PRIM:
            if ck not in RT_PRIM:
                return "disjoint"
            if mk == ck or (mk == "bool" and ck == "int"):
                return "sub"
            if mk == "int" and ck == "bool":
                return "super"
            if mk == "float" and ck in ("int", "bool"):
                return "opaque"  # promotion territory: mypy narrows float by isinstance(int) in its own way
            return "disjoint"
        if mk == "enum":
            return "sub" if c == m else "disjoint"
        if mk in CONTAINER_RT:
            if ck == "bare":
                return "sub" if CONTAINER_RT[mk] == c[1] else "disjoint"
            if ck == "cls" and w.classes[c[1]].flavor == "nt":
                return "disjoint" if mk not in ("tuple", "vtuple") else "opaque"
            return "disjoint"
        if mk in ("box",):
            return "disjoint" if ck != "boxbare" else "sub"
        if mk == "cls":
            if ck == "bare":
                return "sub" if (c[1] == "tuple" and w.classes[m[1]].flavor == "nt") else "disjoint"
            if ck != "cls":
                return "disjoint"
            if c[1] in w.anc(m[1]):
                return "sub"
            if m[1] in w.anc(c[1]):
                return "super"
            fm, fc = w.classes[m[1]].flavor, w.classes[c[1]].flavor
            if "mixin" in (fm, fc):
                return "opaque"  # an ad-hoc intersection is possible
            # two unrelated concrete classes: a common subclass could exist in principle -> mypy builds an intersection
            return "opaque"
        return "opaque"

    def nar_isinstance(self, cur: Ty, cs: list) -> tuple | None:
        yes, no = [], []
        for m in members(cur):
            rels = [self.rel(m, c) for c in cs]
            if "opaque" in rels:
                return None
            if "sub" in rels:
                yes.append(m)
                continue
            sup = [c for c, rl in zip(cs, rels) if rl == "super"]
            if sup:
                yes += sup
                no.append(m)
            else:
                no.append(m)
        return union(yes), union(no)

    def test_classes(self, cur: Ty) -> list:
        """Candidate run-time classes for isinstance tests on a variable of believed type cur."""
        w, out = self.w, []
        ms = members(cur)
        for m in ms:
            if m[0] == "lit":
                m = lit_base(m)
            if m[0] in RT_PRIM or m[0] == "enum":
                out.append(m)
            elif m[0] == "cls":
                out.append(m)
                for s in w.subclasses(m[1]):
                    out.append(("cls", s))
                for a in w.anc(m[1]):
                    out.append(("cls", a))
            elif m[0] in CONTAINER_RT:
                # a bare container class is only a safe test if every member of that container kind is concrete
                out.append(("bare", CONTAINER_RT[m[0]]))
            elif m[0] == "object":
                out += [INT, STR, BOOL, BYTES] + w.class_types()
        if INT in out and BOOL not in out:
            out.append(BOOL)
        if self.cfg.iaf and FLOAT in out and self.rnd.random() < 0.6:
            return [FLOAT]
        res = []
        for c in out:
            if c not in res:
                res.append(c)
        return res

    @staticmethod
    def cls_code(c: Ty) -> str:
        return c[1] if c[0] in ("bare", "cls", "enum") else render(c)

    def narrow_test(self, v: Var, env: Env) -> tuple | None:
        """-> (code, yes belief, no belief, form) or None."""
        r, w = self.rnd, self.w
        cur = v.cur
        ms = members(cur)
        opts = []
        if cur[0] == "tv":
            return None
        if NONE in ms and len(ms) > 1:
            opts += ["none", "none", "truthy"]
        kinds = {(lit_base(m) if m[0] == "lit" else m)[0] for m in ms}
        if len(ms) > 1 or cur == OBJ or (cur[0] == "cls" and len(w.subclasses(cur[1])) > 1) or cur == INT:
            opts += ["isinstance", "isinstance", "isinstance", "typeis"]
        if any(m[0] == "enum" for m in ms) or any(m[0] == "lit" for m in ms):
            opts += ["eq", "eq", "in"]
        if cur in (INT, STR) or (len(ms) > 1 and kinds & {"int", "str"}):
            opts += ["eq"]
        if cur == BOOL:
            opts += ["truthy", "istrue"]
        if any(m[0] == "call" for m in ms) and all(m[0] in ("call", "none", "int", "str", "bool", "float", "bytes", "lit", "enum") for m in ms) and len(ms) > 1 and self.cfg.on("callable"):
            opts += ["callable", "callable"]
        tl = {len(m[1]) for m in ms if m[0] == "tuple"}
        if len(tl) > 1 and all(m[0] == "tuple" for m in ms):
            opts += ["len", "len"]
        if cur[0] == "type" and len(w.subclasses(cur[1])) > 1:
            opts += ["issubclass"]
        if not opts:
            return None
        o = r.choice(opts)
        n = v.name
        if o == "none":
            rest = union([m for m in ms if m != NONE])
            return (("%s is None" % n, NONE, rest, "is-none") if r.random() < 0.5 else ("%s is not None" % n, rest, NONE, "is-not-none"))
        if o == "truthy":
            yes = union([m for m in ms if m != NONE and not (m[0] == "lit" and not m[1])])
            no = union([m for m in ms if not (m[0] == "cls" and self.always_truthy(m) and False) and not (m[0] == "lit" and m[1] and not isinstance(m[1], tuple))])
            if r.random() < 0.5:
                return n, yes, no, "truthy"
            return "not %s" % n, no, yes, "not-truthy"
        if o == "istrue":
            return "%s is True" % n, BOOL, BOOL, "is-true"
        if o in ("isinstance", "typeis"):
            cands = self.test_classes(cur)
            if not cands:
                return None
            if FENCE_TYPE_IS and o == "typeis" and not all(m[0] in ("cls", "none", "list", "dict", "tuple", "set", "box", "call") for m in ms):
                # fenced off: mypy's exact-match rule for `type(x) is C` treats literal types (declared, or produced
                # internally by truthiness/equality narrowing of int/str/bool/enum) as never matching (known finding,
                # witness replay kept); its downstream effects have no bounded set of signatures
                self.lab("excluded:type-is-on-primitive-or-literal")
                o = "isinstance"
            k = 1 if (o == "typeis" or r.random() < 0.7) else 2
            cs = r.sample(cands, min(k, len(cands)))
            if len(cs) > 1 and any(c[0] == "bare" for c in cs):
                # fenced off: isinstance(x, (C, list)) with a bare generic container in the tuple makes mypy lose a
                # later try-body assignment at the merge after the `if` (known finding, witness replay kept)
                self.lab("excluded:isinstance-tuple-with-bare-container")
                cs = cs[:1]
            if not self.cfg.iaf and any(c == FLOAT for c in cs) and False:
                return None
            res = self.nar_isinstance(cur, cs)
            if res is None:
                self.lab("narrow_test_dropped_opaque")
                return None
            yes, no = res
            if o == "typeis":
                c = cs[0]
                if c[0] != "cls":
                    return None
                # type(x) is C: the negative branch keeps everything (subclasses of C are not excluded)
                form = "type-is-on-literal" if any(m[0] == "lit" for m in ms) else "type-is"
                return "type(%s) %s %s" % (n, r.choice(["is", "=="]), self.cls_code(c)), yes, cur, form
            code = "isinstance(%s, %s)" % (n, self.cls_code(cs[0]) if len(cs) == 1 else "(%s)" % ", ".join(self.cls_code(c) for c in cs))
            if r.random() < 0.25:
                return "not " + code, no, yes, "not-isinstance"
            return code, yes, no, "isinstance"
        if o in ("eq", "in"):
            lits = [m for m in ms if m[0] == "lit"]
            for m in ms:
                if m[0] == "enum":
                    lits += [lit(("enum", m[1], x)) for x in w.enums[m[1]]]
            if not lits:
                base = INT if (INT in ms or BOOL in ms) else STR
                lits = [lit(1), lit(0)] if base == INT else [lit("a"), lit("")]
            if OBJ in ms and any(isinstance(x[1], (bool, int)) and not isinstance(x[1], tuple) for x in lits):
                # fenced off: for a top type mypy narrows `x == True` / `x == 1` to the literal's own type although
                # values of the other numeric types compare equal (1 == True, 1.0 == 1); known finding with a witness
                # replay, its symptoms (else branches, match rests, merges) have no bounded set of signatures
                self.lab("excluded:numeric-literal-equality-on-object")
                lits = [x for x in lits if isinstance(x[1], tuple) or not isinstance(x[1], (bool, int))]
                if not lits:
                    return None
            if o == "in":
                pick_ = r.sample(lits, min(len(lits), 2))
                return "%s in (%s,)" % (n, ", ".join(lit_code(x) for x in pick_)), cur, cur, "in-literals"
            x = r.choice(lits)
            isenum = isinstance(x[1], tuple)
            base = lit_base(x)
            if isenum:
                rest = [lit(("enum", base[1], y)) for y in w.enums[base[1]] if y != x[1][2]]
                others = [m for m in ms if m != base and m != x and not (m[0] == "lit" and lit_base(m) == base)]
                same = [m for m in ms if m[0] == "lit" and lit_base(m) == base and m != x]
                no = union(others + same + (rest if base in ms else []))
                opn = r.choice(["==", "!=", "is", "is not"])
                # identity with an enum member is exact; equality keeps the other members (wide)
                yes = union([x] + ([m for m in others if m != NONE] if opn in ("==", "!=") else [m for m in others if m[0] == "object"]))
            else:
                opn = r.choice(["==", "!="])
                if x in ms:
                    yes = cur  # int/bool/float literals compare equal across types: keep everything
                    no = union([m for m in ms if m != x])
                else:
                    yes = no = cur
            if opn in ("==", "is"):
                return "%s %s %s" % (n, opn, lit_code(x)), yes, no, "eq-literal" if opn == "==" else "is-enum"
            return "%s %s %s" % (n, opn, lit_code(x)), no, yes, "ne-literal" if opn == "!=" else "is-not-enum"
        if o == "callable":
            yes = union([m for m in ms if m[0] == "call"])
            no = union([m for m in ms if m[0] != "call"])
            return "callable(%s)" % n, yes, no, "callable"
        if o == "len":
            k = r.choice(sorted(tl))
            return "len(%s) == %d" % (n, k), union([m for m in ms if len(m[1]) == k]), union([m for m in ms if len(m[1]) != k]), "len-eq"
        if o == "issubclass":
            s = r.choice(w.subclasses(cur[1]))
            return "issubclass(%s, %s)" % (n, s), ("type", s), cur, "issubclass"
        return None

    def narrowable(self, env: Env) -> list:
        out = []
        for v in env.vars.values():
            c = v.cur
            if c == NEVER or c[0] == "tv" or v.form == "counter":
                continue
            if c[0] == "union" or c in (OBJ, INT, BOOL) or c[0] in ("enum", "type") or (c[0] == "cls" and len(self.w.subclasses(c[1])) > 1):
                out.append(v)
        return out

    def cond(self, env: Env, d: int) -> tuple:
        """-> (code, yes env, no env).  Envs are clones with beliefs applied."""
        r = self.rnd
        yes, no = env.clone(), env.clone()
        nv = self.narrowable(env)
        if nv and r.random() < 0.85:
            v = r.choice(nv)
            t = self.narrow_test(v, env)
            if t is not None:
                code, ty, tn, form = t
                self.lab("narrow:" + form)
                yes.vars[v.name].cur, yes.vars[v.name].form = ty, form + "+"
                no.vars[v.name].cur, no.vars[v.name].form = tn, form + "-"
                self.enter(yes, form + "+")
                self.enter(no, form + "-")
                x = r.random()
                if x < 0.15 and d > 0:
                    # A and B: B is evaluated (and generated) under A's positive belief; the negative side stays wide
                    code2, yes2, _ = self.cond(yes, d - 1)
                    self.lab("narrow:and")
                    rest = env.clone()
                    self.enter(rest, "and-")
                    return "(%s) and (%s)" % (code, code2), yes2, rest
                if x < 0.28 and d > 0:
                    code2, _, no2 = self.cond(no, d - 1)
                    self.lab("narrow:or")
                    rest = env.clone()
                    self.enter(rest, "or+")
                    return "(%s) or (%s)" % (code, code2), rest, no2
                return code, yes, no
        self.enter(yes, "plain-test+")
        self.enter(no, "plain-test-")
        return self.e(BOOL, env, d), yes, no


class StmtGen(CondGen):
    # ---- blocks
    def block(self, env: Env, depth: int, n: int) -> None:
        start = len(self.out)
        for _ in range(n):
            if env.dead:
                break
            self.stmt(env, depth)
        if len(self.out) == start:
            self.emit("pass")

    def nstm(self, depth: int) -> int:
        base = [1, 1, 2, 2, 3] if depth < self.cfg.max_depth else [3, 4, 5, 6]
        return max(1, int(round(self.rnd.choice(base) * self.cfg.size)))

    def stmt(self, env: Env, depth: int) -> None:
        r = self.rnd
        table = [
            (self.s_new, 12), (self.s_infer, 5), (self.s_reassign, 12), (self.s_aug, 3), (self.s_probe, 9),
            (self.s_use, 9), (self.s_mutate, 4), (self.s_callstmt, 5), (self.s_assert, 1),
        ]
        if depth > 0:
            table += [(self.s_if, 16)]
            if self.cfg.on("loops"):
                table += [(self.s_for, 6), (self.s_while, 3)]
            if self.cfg.on("try"):
                table += [(self.s_try, 5)]
            if self.cfg.on("with"):
                table += [(self.s_with, 3)]
            if self.cfg.on("match"):
                table += [(self.s_match, 6)]
            if self.cfg.on("nested") and "nested" not in env.ctx:
                table += [(self.s_nested, 2), (self.s_closure_shape, 2)]
            if self.cfg.on("try"):
                table += [(self.s_nested_try_shape, 2)]
            if self.cfg.on("ops"):
                table += [(self.s_inplace_shape, 2)]
        tot = sum(wt for _, wt in table)
        x = r.random() * tot
        for fn, wt in table:
            x -= wt
            if x < 0:
                fn(env, depth)
                return

    # ---- simple statements
    def set_after_assign(self, v: Var, ty: Ty, env: Env) -> None:
        v.cur = ty if (v.decl[0] == "union" and ty != NEVER) else v.decl
        v.form = "assign"
        env.assigned.add(v.name)

    def rhs(self, t: Ty, env: Env) -> tuple:
        """-> (code, belief of the assigned variable's type afterwards).  Generic calls take their type
        arguments from the declared type (context), so only literal / plain-name right-hand sides give a
        belief narrower than the declared type."""
        r = self.rnd
        if t[0] == "union" and r.random() < 0.4:
            vs = [v for v in self.vars_of(env, t) if v.cur[0] != "tv"]
            if vs and r.random() < 0.4:
                v = r.choice(vs)
                return v.name, v.cur
            m = r.choice(t[1])
            if m[0] in ("int", "str", "bool", "float", "bytes", "none", "lit", "enum", "cls") and not (m[0] == "cls" and self.w.classes[m[1]].flavor == "nt"):
                code, ty = self.atom(m, env)
                return code, (ty if ty[0] != "lit" or m[0] == "lit" else m)
        code, ty = self.expr(t, env, self.cfg.expr_depth)
        if r.random() < 0.25:
            code = self.probe(code, env, form="expr")
        return code, t

    def s_new(self, env: Env, depth: int) -> None:
        t = self.w.rand_type(2)
        n = self.fresh("v")
        code, ty = self.rhs(t, env)
        self.emit("%s: %s = %s" % (n, render(t), code))
        env.add(Var(n, t, form="assign"))  # a declaration with initialiser does not narrow
        env.assigned.add(n)

    def s_infer(self, env: Env, depth: int) -> None:
        r, w = self.rnd, self.w
        n = self.fresh("u")
        ch = r.randrange(6)
        if ch == 0:
            t = r.choice([INT, STR, FLOAT, BOOL, BYTES])
            code = self.atom(t, env)[0]
            if code in ("True", "False"):
                t = BOOL
            if t == FLOAT and self.cfg.iaf and "." not in code:
                t = BOOL if code in ("True", "False") else INT
        elif ch == 1 and w.class_types():
            t = r.choice(w.class_types())
            ci = w.classes[t[1]]
            code = "%s(%s)" % (t[1], self.args(Sig(list(ci.fields), t), env, 1))
        elif ch == 2:
            fs = [(nm, sig) for nm, sig, rank in w.funcs if rank < env.rank and sig.ret not in (NONE, NEVER)] + [(nm, sig) for nm, sig in env.lfuncs if sig.ret != NONE]
            if not fs:
                return self.s_new(env, depth)
            nm, sig = r.choice(fs)
            t, code = sig.ret, "%s(%s)" % (nm, self.args(sig, env, 1))
        elif ch == 3:
            el = r.choice([INT, STR])
            t, code = ("list", el), "[%s]" % ", ".join(self.atom(el, env)[0] for _ in range(r.choice([1, 2, 3])))
            if "True" in code or "False" in code:
                return self.s_new(env, depth)
        elif ch == 4 and w.enums:
            en = r.choice(sorted(w.enums))
            t, code = ("enum", en), "%s.%s" % (en, r.choice(w.enums[en]))
        else:
            t = r.choice([INT, STR])
            code = self.e(t, env, 2)
            if t == INT:
                code = "(%s + 0)" % code  # bool + int is int: the inferred type is exactly int
            else:
                code = "(%s + \"\")" % code
        self.lab("inferred_locals")
        self.emit("%s = %s" % (n, code))
        env.add(Var(n, t, form="assign"))
        env.assigned.add(n)

    def s_reassign(self, env: Env, depth: int) -> None:
        vs = [v for v in env.vars.values() if not v.frozen and v.decl[0] != "tv"]
        if not vs:
            return self.s_new(env, depth)
        v = self.rnd.choice(vs)
        code, ty = self.rhs(v.decl, env)
        for _ in range(3):
            if not (env.loop and mentions(code, v.name) and code != v.name):
                break
            code, ty = self.rhs(v.decl, env)
        else:
            if env.loop and mentions(code, v.name):
                code, ty = self.atom(v.decl, env)
        self.emit("%s = %s" % (v.name, code))
        self.set_after_assign(v, ty, env)
        if self.rnd.random() < 0.5:
            self.emit(self.probe(v.name, env, v))

    def s_aug(self, env: Env, depth: int) -> None:
        r = self.rnd
        vs = [v for v in env.vars.values() if not v.frozen and v.cur in (INT, STR, FLOAT, BYTES) and self.w.sub(v.cur, v.decl)]
        vs += [v for v in env.vars.values() if not v.frozen and v.cur[0] == "list" and v.cur == v.decl]
        if not vs:
            return self.s_reassign(env, depth)
        v = r.choice(vs)
        op = "+=" if v.cur != INT else r.choice(["+=", "-=", "+="])
        code = self.e(v.cur, env, 2)
        if env.loop and (mentions(code, v.name) or v.cur[0] == "list"):
            code = self.atom(v.cur, env)[0]
        self.emit("%s %s %s" % (v.name, op, code))
        v.form = "aug-assign"
        env.assigned.add(v.name)
        self.lab("aug_assign")

    def pick_probe_var(self, env: Env) -> Var | None:
        vs = [v for v in env.vars.values() if v.cur != NEVER]
        if not vs:
            return None
        nar = [v for v in vs if v.cur != v.decl or v.form != "decl"]
        return self.rnd.choice(nar) if nar and self.rnd.random() < 0.7 else self.rnd.choice(vs)

    def s_probe(self, env: Env, depth: int) -> None:
        v = self.pick_probe_var(env)
        if v is not None:
            self.emit(self.probe(v.name, env, v))

    def use_expr(self, v: Var, env: Env) -> tuple | None:
        """An expression that relies on v's believed (narrowed) type."""
        r, w = self.rnd, self.w
        c, n = v.cur, v.name
        if c[0] == "lit":
            c = lit_base(c)
        if c[0] == "tv":
            c = c[2]
        e = lambda ty: self.e(ty, env, 1)
        k = c[0]
        if k == "int" or k == "bool":
            return r.choice(["(%s + %s)" % (n, e(INT)), "%s.bit_length()" % n, "(%s // 5)" % n, "(-%s)" % n, "(%s < %s)" % (n, e(INT)), "[%s][0]" % n, "(%s * 2)" % n, '"ab"[:%s]' % n])
        if k == "str":
            return r.choice(["%s.upper()" % n, "(%s + %s)" % (n, e(STR)), "len(%s)" % n, "%s.startswith(%s)" % (n, e(STR)), "%s[:1]" % n, "%s.split()" % n, "(%s * 2)" % n])
        if k == "float":
            return r.choice(["(%s * 2.0)" % n, "(%s + %s)" % (n, e(FLOAT)), "abs(%s)" % n, "(%s < 1.0)" % n, "(%s / 2)" % n])
        if k == "bytes":
            return r.choice(["%s.decode()" % n, "len(%s)" % n, "(%s + b\"!\")" % n, "%s[:1]" % n])
        if k == "none":
            return "(%s is None)" % n
        if k == "enum":
            return r.choice(["%s.name" % n, "(%s == %s.%s)" % (n, c[1], w.enums[c[1]][-1]), "(%s is %s.%s)" % (n, c[1], w.enums[c[1]][0])])
        if k == "cls":
            ci = w.classes[c[1]]
            outs = []
            if c == VEC:
                outs += ["(%s + %s)" % (n, n), "(2 * %s)" % n, "%s[0]" % n, "len(%s)" % n, "(-%s)" % n, "(1 + %s)" % n]
            if ci.flavor == "exc":
                outs += ["str(%s)" % n, "repr(%s)" % n]
            else:
                outs += ["%s.%s" % (n, f) for f, _ in ci.fields]
            for m, sig in ci.methods.items():
                if (env.mrank is None or w.method_rank[m] < env.mrank) and sig.ret != NONE:
                    outs.append("%s.%s(%s)" % (n, m, self.args(sig, env, 1)))
            if ci.flavor == "nt":
                outs += ["%s[0]" % n, "len(%s)" % n]
            return r.choice(outs) if outs else None
        if k == "proto":
            m, sig, _ = w.protos[c[1]]
            if (env.mrank is None or w.method_rank[m] < env.mrank) and sig.ret != NONE:
                return "%s.%s(%s)" % (n, m, self.args(sig, env, 1))
            return None
        if k in ("list", "seq", "vtuple"):
            outs = ["len(%s)" % n, "(%s[0] if %s else None)" % (n, n), "%s[-1:]" % n, "[%s for %s in %s]" % ("z_", "z_", n)]
            if k == "list":
                outs += ["%s.copy()" % n, "(%s + %s)" % (n, n), "%s.count(%s)" % (n, e(c[1]))]
            return r.choice(outs)
        if k == "set":
            return r.choice(["len(%s)" % n, "(%s in %s)" % (e(c[1]), n), "(%s | %s)" % (n, n), "sorted(%s)" % n if c[1] in (INT, STR) else "len(%s)" % n])
        if k == "dict":
            return r.choice(["len(%s)" % n, "%s.get(%s)" % (n, e(c[1])), "list(%s.keys())" % n, "list(%s.values())" % n, "(%s in %s)" % (e(c[1]), n), "list(%s.items())" % n])
        if k == "tuple":
            if not c[1]:
                return "len(%s)" % n
            i = r.randrange(len(c[1]))
            return r.choice(["%s[%d]" % (n, i), "len(%s)" % n, "%s[-1]" % n, "(%s + %s)" % (n, n)])
        if k == "box":
            return r.choice(["%s.get()" % n, "%s.map(%s)" % (n, self.lam(("call", (c[1],), r.choice([INT, STR])), env, 1))])
        if k == "call":
            return "%s(%s)" % (n, ", ".join(e(p) for p in c[1])) if c[2] != NONE else None
        if k == "type":
            return r.choice(["%s.__name__" % n, "issubclass(%s, %s)" % (n, c[1])])
        if k == "td":
            return '%s["%s"]' % (n, r.choice(w.tds[c[1]])[0])
        return None

    def s_use(self, env: Env, depth: int) -> None:
        r = self.rnd
        vs = [v for v in env.vars.values() if v.cur[0] not in ("union", "never", "object")]
        if not vs:
            return self.s_probe(env, depth)
        nar = [v for v in vs if v.cur != v.decl]
        v = r.choice(nar) if nar and r.random() < 0.75 else r.choice(vs)
        code = self.use_expr(v, env)
        if code is None:
            return self.s_probe(env, depth)
        self.lab("uses_of_narrowed" if v.cur != v.decl else "uses_of_declared")
        self.emit(self.probe(code, env, form="use:" + v.form))

    def s_mutate(self, env: Env, depth: int) -> None:
        r = self.rnd
        vs = [v for v in env.vars.values() if v.cur[0] in ("list", "dict", "set", "box")]
        if not vs:
            return self.s_new(env, depth)
        v = r.choice(vs)
        c, n = v.cur, v.name
        if c[0] == "list":
            ext = self.e(c, env, 1)
            if env.loop:
                ext = self.atom(c, env)[0]
            self.emit(r.choice(["%s.append(%s)" % (n, self.e(c[1], env, 2)), "%s.extend(%s)" % (n, ext), "%s.insert(0, %s)" % (n, self.e(c[1], env, 1))]))
        elif c[0] == "dict":
            self.emit("%s[%s] = %s" % (n, self.e(c[1], env, 1), self.e(c[2], env, 2)))
        elif c[0] == "set":
            self.emit("%s.add(%s)" % (n, self.e(c[1], env, 1)))
        else:
            self.emit("%s.put(%s)" % (n, self.e(c[1], env, 2)))
        self.lab("container_mutations")

    def s_callstmt(self, env: Env, depth: int) -> None:
        cs = self.callables(NONE_OK, env)
        if not cs:
            return self.s_use(env, depth)
        name, sig = self.rnd.choice(cs)
        call = "%s(%s)" % (name, self.args(sig, env, 2))
        self.emit(self.probe(call, env, form="call-result") if sig.ret not in (NEVER, NONE) else call)

    def s_assert(self, env: Env, depth: int) -> None:
        """assert <narrowing test>: the rest of the block runs under the positive belief (AssertionError otherwise)."""
        nv = self.narrowable(env)
        if not nv:
            return self.s_probe(env, depth)
        v = self.rnd.choice(nv)
        t = self.narrow_test(v, env)
        if t is None or t[1] == NEVER:
            return self.s_probe(env, depth)
        code, yes, _no, form = t
        self.emit("assert %s" % code)
        self.enter(env, form + "+")
        v.cur, v.form = yes, "assert:" + form
        self.lab("narrow:assert")
        self.emit(self.probe(v.name, env, v))

    # ---- exits
    def s_exit(self, env: Env) -> None:
        r = self.rnd
        opts = ["return", "return"]
        if env.loop:
            opts += ["continue", "break", "continue"]
        if "try" in env.ctx or "with" in env.ctx:
            opts += ["raise", "raise", "fail"]
        o = r.choice(opts)
        if o == "return":
            self.emit("return" if env.ret == NONE and r.random() < 0.5 else "return %s" % self.e(env.ret, env, 1))
        elif o == "raise":
            self.emit("raise %s" % self.atom(r.choice(EXC), env)[0])
        elif o == "fail":
            self.emit('fail("f")')
        else:
            self.emit(o)
        self.lab("exit:" + o)
        env.dead = True

    def branch_body(self, env: Env, depth: int, focus: Var | None, can_exit: bool = True, carried: str | None = None) -> None:
        """Body of a conditional branch: probe the variable the test was about, some statements, maybe an exit.
        `carried`: a loop-carried variable, read at the top of the body and re-assigned at its end."""
        self.ind += 1
        start = len(self.out)
        if carried is not None and carried in env.vars:
            cv = env.vars[carried]
            self.emit(self.probe(cv.name, env, cv))
        if focus is not None and focus.name in env.vars and self.rnd.random() < 0.85:
            fv = env.vars[focus.name]
            self.emit(self.probe(fv.name, env, fv))
            if fv.cur == NEVER:
                # believed unreachable: nothing else in here
                self.ind -= 1
                env.dead = True
                return
            if fv.cur[0] not in ("union", "object") and self.rnd.random() < 0.6:
                code = self.use_expr(fv, env)
                if code is not None:
                    self.lab("uses_of_narrowed")
                    self.emit(self.probe(code, env, form="use:" + fv.form))
        self.block(env, depth - 1, self.nstm(depth - 1)) if (self.rnd.random() < 0.75 or len(self.out) == start) else None
        if carried is not None and carried in env.vars and not env.dead and not env.vars[carried].frozen:
            cv = env.vars[carried]
            code, ty = self.atom(self.rnd.choice(members(cv.decl)), env)
            self.emit("%s = %s" % (cv.name, code))
            self.set_after_assign(cv, ty if ty[0] != "lit" else lit_base(ty), env)
        if can_exit and not env.dead and self.rnd.random() < 0.22:
            self.s_exit(env)
        self.ind -= 1

    # ---- if / elif / else
    def s_if(self, env: Env, depth: int) -> None:
        r = self.rnd
        before = {k: v.cur for k, v in env.vars.items()}
        code, yes, no = self.cond(env, 2)
        focus = next((v for v in env.vars.values() if yes.vars[v.name].cur != before[v.name] or no.vars[v.name].cur != before[v.name] or yes.vars[v.name].form != v.form), None)
        self.emit("if %s:" % code)
        self.branch_body(yes, depth, focus)
        branches = [yes]
        rest = no
        while r.random() < 0.3 and not rest.dead:
            code2, yes2, no2 = self.cond(rest, 1)
            f2 = next((v for v in rest.vars.values() if yes2.vars[v.name].cur != v.cur or yes2.vars[v.name].form != v.form), None)
            self.emit("elif %s:" % code2)
            self.branch_body(yes2, depth, f2)
            branches.append(yes2)
            rest = no2
            self.lab("elif")
        if r.random() < 0.6:
            self.emit("else:")
            self.branch_body(rest, depth, focus)
        branches.append(rest)
        merge_envs(env, branches, "merge-if")
        self.lab("if_statements")
        if not env.dead and focus is not None and r.random() < 0.6:
            fv = env.vars[focus.name]
            self.emit(self.probe(fv.name, env, fv))

    # ---- loops
    def loop_writable(self, env: Env) -> list:
        """Variables the loop body may assign: their belief is reset to the declared type at the loop head."""
        ws = []
        for v in env.vars.values():
            if not v.frozen and self.rnd.random() < 0.5:
                ws.append(v.name)
        return ws

    def enter_loop(self, env: Env, ws: list) -> Env:
        body = env.clone()
        body.loop += 1
        body.ctx = env.ctx + ("loop",)
        self.enter(body, "loop-body")
        for v in body.vars.values():
            if v.name in ws:
                v.cur, v.form = v.decl, "loop-head"
            else:
                v.frozen = True
        return body

    def loop_carried(self, env: Env, ws: list) -> str | None:
        """Pick a writable union-typed variable, give it a definite value before the loop; the body reads it first and
        re-assigns it last, so its type at the loop head is only right after a second pass over the body."""
        cand = [n for n in ws if env.vars[n].decl[0] == "union" and all(m[0] in ("int", "str", "bool", "float", "bytes", "none", "enum", "cls", "lit") for m in env.vars[n].decl[1])]
        if not cand or self.rnd.random() < 0.4:
            return None
        n = self.rnd.choice(cand)
        v = env.vars[n]
        code, ty = self.atom(self.rnd.choice(members(v.decl)), env)
        self.emit("%s = %s" % (n, code))
        self.set_after_assign(v, ty if ty[0] != "lit" else lit_base(ty), env)
        self.lab("loop_carried_variables")
        return n

    def leave_loop(self, env: Env, ws: list, body: Env) -> None:
        for n in ws:
            v = env.vars[n]
            v.cur, v.form = v.decl, "after-loop"
        env.assigned |= body.assigned

    def s_for(self, env: Env, depth: int) -> None:
        r, w = self.rnd, self.w
        srcs = [v for v in env.vars.values() if v.cur[0] in ("list", "set", "seq", "vtuple", "dict") or v.cur == STR or (v.cur[0] == "tuple" and v.cur[1]) or v.cur == VEC]
        if (not srcs or r.random() < 0.35) and r.random() < 0.6:
            # make an annotated source with an interesting element type first
            el = w.rand_type(1)
            n0 = self.fresh("it")
            t0 = ("list", el)
            self.emit("%s: %s = %s" % (n0, render(t0), self.e(t0, env, 2)))
            srcs = [env.add(Var(n0, t0))]
        ws = self.loop_writable(env)
        carried = self.loop_carried(env, ws)
        srcs = [v for v in srcs if v.name != carried]
        body = self.enter_loop(env, ws)
        lv = self.fresh("x")
        newvars = []
        if not srcs or r.random() < 0.2:
            self.emit("for %s in range(%s):" % (lv, r.choice(["2", "3", "4", "min(abs(%s), 3)" % self.e(INT, env, 0)])))
            newvars.append(Var(lv, INT, frozen=True, form="for-target"))
        else:
            s = r.choice(srcs)
            c = s.cur
            ety = STR if c == STR else INT if c == VEC else union(c[1]) if c[0] == "tuple" else c[1]
            x = r.random()
            if c[0] == "dict" and x < 0.6:
                lv2 = self.fresh("y")
                self.emit("for %s, %s in %s.items():" % (lv, lv2, s.name))
                newvars += [Var(lv, c[1], frozen=True, form="for-target"), Var(lv2, c[2], frozen=True, form="for-target")]
            elif x < 0.2 and c[0] != "tuple":
                lv2 = self.fresh("i")
                self.emit("for %s, %s in enumerate(%s):" % (lv2, lv, "list(%s)" % s.name if c[0] in ("list", "seq") else s.name))
                newvars += [Var(lv2, INT, frozen=True, form="for-target"), Var(lv, ety, frozen=True, form="for-target")]
            elif x < 0.35 and len([q for q in srcs if q.cur[0] != "tuple"]) > 1 and c[0] != "tuple":
                s2 = r.choice([q for q in srcs if q.cur[0] != "tuple"])
                c2 = s2.cur
                ety2 = STR if c2 == STR else INT if c2 == VEC else union(c2[1]) if c2[0] == "tuple" else c2[1]
                lv2 = self.fresh("y")
                self.emit("for %s, %s in zip(%s, %s):" % (lv, lv2, "list(%s)" % s.name if c[0] in ("list", "seq") else s.name, s2.name))
                newvars += [Var(lv, ety, frozen=True, form="for-target"), Var(lv2, ety2, frozen=True, form="for-target")]
            else:
                self.emit("for %s in %s:" % (lv, "list(%s)" % s.name if c[0] in ("list", "seq") else s.name))
                newvars.append(Var(lv, ety, frozen=True, form="for-target"))
            if s.name in body.vars:
                body.vars[s.name].frozen = True  # do not rebind/mutate the sequence being iterated... rebinding is fine, mutation is not generated on frozen
        for nv in newvars:
            body.add(nv)
        self.branch_body(body, depth, newvars[-1], can_exit=False, carried=carried)
        if r.random() < 0.2:
            self.emit("else:")
            e2 = env.clone()
            for n in ws:
                e2.vars[n].cur, e2.vars[n].form = e2.vars[n].decl, "after-loop"
            self.ind += 1
            self.block(e2, depth - 1, 1)
            self.ind -= 1
            self.lab("loop_else")
        self.leave_loop(env, ws, body)
        self.lab("for_loops")
        self.after_loop_probe(env, ws)

    def after_loop_probe(self, env: Env, ws: list) -> None:
        cand = [n for n in ws if n in env.vars and env.vars[n].decl[0] == "union"]
        if cand and self.rnd.random() < 0.7:
            v = env.vars[self.rnd.choice(cand)]
            self.emit(self.probe(v.name, env, v))

    def s_while(self, env: Env, depth: int) -> None:
        r = self.rnd
        cn = self.fresh("n")
        self.emit("%s = 0" % cn)
        env.add(Var(cn, INT, frozen=True, form="counter"))
        ws = self.loop_writable(env)
        carried = self.loop_carried(env, ws)
        body = self.enter_loop(env, ws)
        focus = None
        if r.random() < 0.5:
            code, yes, _ = self.cond(body, 1)
            yes.loop, yes.ctx = body.loop, body.ctx
            focus = next((v for v in body.vars.values() if yes.vars[v.name].cur != v.cur), None)
            body = yes
            self.emit("while %s < %s and (%s):" % (cn, r.choice(["2", "3", "4"]), code))
        else:
            self.emit("while %s < %s:" % (cn, r.choice(["2", "3", "4"])))
        self.ind += 1
        self.emit("%s += 1" % cn)
        self.ind -= 1
        self.branch_body(body, depth, focus, can_exit=False, carried=carried)
        self.leave_loop(env, ws, body)
        self.lab("while_loops")
        self.after_loop_probe(env, ws)


class FullGen(StmtGen):
    # ---- try / except / else / finally
    def risky_body(self, env: Env, depth: int) -> None:
        """Statements interleaved with calls that may raise, so that a handler can be entered from several states."""
        r = self.rnd
        self.ind += 1
        n = r.choice([2, 3, 4])
        for i in range(n):
            if env.dead:
                break
            if r.random() < 0.7:
                (self.s_reassign if r.random() < 0.7 else self.s_new)(env, depth - 1)
            else:
                self.stmt(env, depth - 1)
            if env.dead:
                break
            x = r.random()
            if x < 0.6:
                ints = self.vars_of(env, INT)
                quiet = "with" in env.ctx and "try" not in env.ctx
                arg = r.choice(ints).name if ints and r.random() < 0.3 and not quiet else r.choice(["2", "5", "8", "3", "6"] if quiet else ["0", "2", "3", "5", "6", "7", "10", "8"])
                self.emit("maybe_raise(%s)" % arg)
            elif x < 0.7:
                self.emit("if %s:" % self.e(BOOL, env, 1))
                self.ind += 1
                self.emit(r.choice(["raise %s" % self.atom(r.choice(EXC), env)[0], 'fail("t")']))
                self.ind -= 1
        self.ind -= 1

    def s_try(self, env: Env, depth: int) -> None:
        r = self.rnd
        entry = env.clone()
        outer_assigned = env.assigned
        body = env.clone()
        body.assigned = set()
        body.ctx = env.ctx + ("try",)
        self.enter(body, "try-body")
        self.emit("try:")
        self.risky_body(body, depth)
        assigned = set(body.assigned)
        ends = []
        handlers = r.choice([["E1", "E2"], ["E1", "E2"], ["E3", "E1", "E2"], ["(E1, E2)"], ["(E1, E2)"], ["E3", "(E1, E2)"], ["E1"], ["E2"]])
        for h in handlers:
            he = entry.clone()
            he.assigned = set()
            he.ctx = env.ctx + ("except",)
            self.enter(he, "except-handler")
            for n in assigned:
                if n in he.vars:
                    he.vars[n].cur, he.vars[n].form = he.vars[n].decl, "except-entry"
            focus = None
            cand = [he.vars[n] for n in sorted(assigned) if n in he.vars]
            if cand:
                focus = r.choice(cand)
            if r.random() < 0.5:
                en = self.fresh("ex")
                self.emit("except %s as %s:" % (h, en))
                ety = union([("cls", "E1"), ("cls", "E2")]) if h.startswith("(") else ("cls", h)
                he.add(Var(en, ety, frozen=True, form="except-target"))
            else:
                self.emit("except %s:" % h)
            self.branch_body(he, depth, focus)
            he.vars = {k: v for k, v in he.vars.items() if k in entry.vars}
            assigned |= he.assigned
            ends.append(he)
        if r.random() < 0.3 and not body.dead:
            self.emit("else:")
            body.ctx = env.ctx + ("try-else",)
            self.ind += 1
            self.block(body, depth - 1, 1)
            self.ind -= 1
            assigned |= body.assigned
        body.vars = {k: v for k, v in body.vars.items() if k in entry.vars}
        ends.append(body)
        if r.random() < 0.35:
            self.emit("finally:")
            fe = entry.clone()
            fe.assigned = set()
            fe.ctx = env.ctx + ("finally",)
            self.enter(fe, "finally")
            # the finally body is checked twice by mypy (normal and abnormal exit); the type map keeps the last
            # visit only, so nothing whose type depends on what the try assigned is probed here
            fe.vars = {k: v for k, v in fe.vars.items() if k not in assigned}
            for v in fe.vars.values():
                v.frozen = True
            self.ind += 1
            # ... and narrowing inside the try body (assert, early exits) reaches it too: neutral statements only
            for _ in range(r.choice([1, 2])):
                self.emit(self.probe(self.atom(r.choice([INT, STR, BOOL, NONE]), fe)[0], fe, form="finally-neutral"))
            self.ind -= 1
            self.lab("finally_blocks")
        merge_envs(env, ends, "merge-try")
        for n in assigned:
            if n in env.vars and env.vars[n].form not in ("merge-try",):
                env.vars[n].form = "merge-try"
        env.assigned = outer_assigned
        env.assigned |= assigned
        self.lab("try_statements")
        cand = [env.vars[n] for n in sorted(assigned) if n in env.vars]
        if cand and not env.dead and r.random() < 0.7:
            v = r.choice(cand)
            self.emit(self.probe(v.name, env, v))

    def s_with(self, env: Env, depth: int) -> None:
        r = self.rnd
        entry = env.clone()
        outer_assigned = env.assigned
        body = env.clone()
        body.assigned = set()
        body.ctx = env.ctx + ("with",)
        self.enter(body, "with-body")
        swallow = r.random() < 0.6
        if swallow:
            self.emit("with Swallow():" if r.random() < 0.6 else "with Swallow() as %s:" % self.fresh("g"))
        else:
            g = self.fresh("g")
            self.emit("with Guard() as %s:" % g)
            body.add(Var(g, STR, frozen=True))
        self.risky_body(body, depth)
        assigned = set(body.assigned)
        body.vars = {k: v for k, v in body.vars.items() if k in entry.vars}
        if swallow:
            for n in assigned:
                if n in entry.vars:
                    entry.vars[n].cur, entry.vars[n].form = entry.vars[n].decl, "after-with"
            merge_envs(env, [entry, body], "after-with")
        else:
            merge_envs(env, [body], "after-with")
        env.assigned = outer_assigned
        env.assigned |= assigned
        self.lab("with_swallow" if swallow else "with_guard")
        cand = [env.vars[n] for n in sorted(assigned) if n in env.vars]
        if cand and not env.dead and r.random() < 0.7:
            v = r.choice(cand)
            self.emit(self.probe(v.name, env, v))

    # ---- match
    def s_match(self, env: Env, depth: int) -> None:
        r, w = self.rnd, self.w
        subs = [v for v in env.vars.values() if v.cur[0] == "union" or v.cur == OBJ or v.cur[0] in ("enum", "tuple") or (v.cur[0] == "cls" and w.classes[v.cur[1]].flavor in ("data", "nt", "plain"))]
        if not subs:
            return self.s_if(env, depth)
        v = r.choice(subs)
        remaining = v.cur
        self.emit("match %s:" % v.name)
        self.ind += 1
        ends = []
        ncase = 0
        order = list(members(v.cur))
        r.shuffle(order)
        if v.cur == OBJ:
            order = [INT, STR, NONE] + w.class_types()[:2]
            r.shuffle(order)
        seq_ok = not any(m[0] in ("list", "seq", "vtuple", "object", "proto", "tv") or (m[0] == "cls" and w.classes[m[1]].flavor == "nt") for m in members(v.cur))
        for m in order[:4]:
            if remaining == NEVER:
                break
            caps: list = []
            pat = None
            yes = no = None
            form = "match-class"
            mk = m[0]
            guard_ok = True
            if mk in RT_PRIM or (mk == "cls" and r.random() < 0.5) or (mk == "enum" and r.random() < 0.3):
                res = self.nar_isinstance(remaining, [m])
                if res is None or m == FLOAT and not self.cfg.iaf and False:
                    continue
                yes, no = res
                pat = "%s()" % self.cls_code(m)
                if r.random() < 0.3 and yes != NEVER:
                    cn = self.fresh("k")
                    pat += " as %s" % cn
                    caps.append(Var(cn, yes, frozen=True, form="match-capture"))
            elif mk == "cls":
                ci = w.classes[m[1]]
                res = self.nar_isinstance(remaining, [m])
                if res is None or not ci.fields or ci.flavor in ("exc", "lib"):
                    continue
                yes, _ = res
                no = remaining
                f, ft = r.choice(ci.fields)
                cn = self.fresh("k")
                if ci.flavor in ("data", "nt") and r.random() < 0.5:
                    names = [self.fresh("k") for _ in ci.fields]
                    pat = "%s(%s)" % (m[1], ", ".join(names))
                    caps += [Var(nm, fty, frozen=True, form="match-capture") for nm, (_, fty) in zip(names, ci.fields)]
                    no = res[1]
                elif ft[0] == "union" and r.random() < 0.5 and any(x in (INT, STR) for x in ft[1]):
                    sub = r.choice([x for x in ft[1] if x in (INT, STR)])
                    pat = "%s(%s=%s() as %s)" % (m[1], f, render(sub), cn)
                    caps.append(Var(cn, sub, frozen=True, form="match-capture"))
                else:
                    pat = "%s(%s=%s)" % (m[1], f, cn)
                    caps.append(Var(cn, ft, frozen=True, form="match-capture"))
                    no = res[1]
                form = "match-class-sub"
            elif mk == "none":
                pat, yes, no, form = "None", NONE, union([x for x in members(remaining) if x != NONE]), "match-none"
            elif mk == "lit" and OBJ in members(remaining) and isinstance(m[1], (bool, int)) and not isinstance(m[1], tuple):
                self.lab("excluded:numeric-literal-equality-on-object")
                continue
            elif mk == "lit":
                pat, yes, no, form = lit_code(m), union([m] + [x for x in members(remaining) if x[0] not in ("lit", "none", "enum") or (x[0] == "enum" and isinstance(m[1], tuple))]), union([x for x in members(remaining) if x != m]), "match-literal"
                if isinstance(m[1], tuple):
                    yes = m
                else:
                    yes = union([x for x in members(remaining) if x != NONE])  # 2 == True-style cross equality: keep wide
            elif mk == "enum":
                mem = r.sample(w.enums[m[1]], r.choice([1, 2]) if len(w.enums[m[1]]) > 2 else 1)
                pat = " | ".join("%s.%s" % (m[1], x) for x in mem)
                yes = union([lit(("enum", m[1], x)) for x in mem])
                no = union([x for x in members(remaining) if x != m] + [lit(("enum", m[1], x)) for x in w.enums[m[1]] if x not in mem])
                form = "match-enum"
            elif mk == "tuple" and seq_ok and m[1]:
                k = len(m[1])
                same = [x for x in members(remaining) if x[0] == "tuple" and len(x[1]) == k]
                if not same:
                    continue
                names = [self.fresh("k") for _ in range(k)]
                pat = "(%s)" % "".join(nm + ", " for nm in names) if r.random() < 0.5 else "[%s]" % ", ".join(names)
                caps += [Var(nm, union([x[1][i] for x in same]), frozen=True, form="match-capture") for i, nm in enumerate(names)]
                yes, no, form = union(same), union([x for x in members(remaining) if x not in same]), "match-sequence"
            elif mk == "dict" and m[1] == STR and all(x[0] in ("int", "str", "bool", "float", "bytes", "none", "lit", "list", "tuple", "set", "enum", "dict") for x in members(remaining)) and sum(1 for x in members(remaining) if x[0] == "dict") == 1:
                cn = self.fresh("k")
                pat = '{"a": %s}' % cn
                caps.append(Var(cn, m[2], frozen=True, form="match-capture"))
                yes, no, form = remaining, remaining, "match-mapping"  # mypy does not narrow the subject here
            elif mk == "list" and not any(x[0] in ("object", "proto", "tv", "seq", "vtuple", "tuple") or (x[0] == "cls" and w.classes[x[1]].flavor == "nt") for x in members(remaining)) and sum(1 for x in members(remaining) if x[0] == "list") == 1:
                cn, cr = self.fresh("k"), self.fresh("k")
                pat = "[%s, *%s]" % (cn, cr)
                caps += [Var(cn, m[1], frozen=True, form="match-capture"), Var(cr, m, frozen=True, form="match-capture")]
                yes, no, form = m, remaining, "match-sequence"
            if pat is None:
                continue
            ce = env.clone()
            ce.ctx = env.ctx + ("match",)
            cv = ce.vars[v.name]
            cv.cur, cv.form = yes, form
            self.enter(ce, form)
            for c in caps:
                ce.add(c)
            if r.random() < 0.15 and yes != NEVER:
                pat += " if %s" % self.e(BOOL, ce, 1)
                no = remaining
            self.emit("case %s:" % pat)
            self.lab("narrow:" + form)
            focus = caps[0] if caps and r.random() < 0.5 else cv
            self.branch_body(ce, depth, focus)
            ce.vars = {k: x for k, x in ce.vars.items() if k in env.vars}
            ends.append(ce)
            remaining = no
            ncase += 1
        if ncase == 0 or r.random() < 0.6:
            ce = env.clone()
            ce.ctx = env.ctx + ("match",)
            ce.vars[v.name].cur, ce.vars[v.name].form = remaining, "match-rest"
            self.enter(ce, "match-rest")
            self.emit("case _:")
            self.branch_body(ce, depth, ce.vars[v.name])
            ends.append(ce)
        else:
            fall = env.clone()
            fall.vars[v.name].cur, fall.vars[v.name].form = remaining, "match-rest"
            if remaining == NEVER:
                fall.dead = True
            ends.append(fall)
        self.ind -= 1
        merge_envs(env, ends, "merge-match")
        self.lab("match_statements")
        if not env.dead and r.random() < 0.5:
            self.emit(self.probe(v.name, env, env.vars[v.name]))

    # ---- directed shapes ------------------------------------------------------------------------------
    SIMPLE_MEMBER_KINDS = ("int", "str", "bool", "bytes", "none", "enum", "cls")

    def shape_var(self, env: Env, need_none: bool = False) -> Var:
        """A rebindable local of declared union type with >= 2 cheaply constructible members (an existing one
        or a fresh declaration)."""
        r = self.rnd
        ok = lambda m: m[0] in self.SIMPLE_MEMBER_KINDS and not (m[0] == "cls" and self.w.classes[m[1]].flavor in ("mixin", "nt", "exc"))
        cands = [v for v in env.vars.values() if not v.frozen and v.decl[0] == "union" and sum(1 for m in v.decl[1] if ok(m)) >= 2 and (not need_none or NONE in v.decl[1])]
        if cands and r.random() < 0.6:
            return r.choice(cands)
        pool = [INT, STR, BOOL, BYTES] + [c for c in self.w.class_types() if ok(c)][:2] + ([("enum", sorted(self.w.enums)[0])] if self.w.enums else [])
        ms = r.sample(pool, r.choice([2, 2, 3]))
        if need_none or r.random() < 0.5:
            ms.append(NONE)
        t = union(ms)
        n = self.fresh("v")
        self.emit("%s: %s = %s" % (n, render(t), self.atom(r.choice(members(t)), env)[0]))
        env.assigned.add(n)
        return env.add(Var(n, t, form="assign"))

    def simple_members(self, v: Var) -> list:
        return [m for m in v.decl[1] if m[0] in self.SIMPLE_MEMBER_KINDS and not (m[0] == "cls" and self.w.classes[m[1]].flavor in ("mixin", "nt", "exc"))]

    def assign_member(self, v: Var, m: Ty, env: Env) -> None:
        code, ty = self.atom(m, env)
        self.emit("%s = %s" % (v.name, code))
        self.set_after_assign(v, ty if ty[0] != "lit" else lit_base(ty), env)

    def boom_arg(self, env: Env) -> str:
        ints = [v for v in env.vars.values() if v.cur == INT and v.decl == INT and v.form != "counter"]
        if ints and self.rnd.random() < 0.7:
            return self.rnd.choice(ints).name
        return self.rnd.choice(["0", "1", "2", "2", "3", "4", "5"])

    def s_nested_try_shape(self, env: Env, depth: int) -> None:
        """(A) nested try statements: a union-typed local is narrowed by assignment before the outer try, re-assigned
        inside an INNER try (which does not catch what is raised: `except E1` or try/finally) around calls that really
        raise ValueError/KeyError, so the exception reaches the OUTER handler from an intermediate state; the variable
        is probed there and after the statement."""
        r = self.rnd
        v = self.shape_var(env)
        ms = self.simple_members(v)
        levels = r.choice([2, 2, 2, 3])
        wrap = r.choice([None, None, "for", "with", "while"]) if depth > 0 else None
        self.lab("shape:nested_try")
        self.lab("shape:nested_try_depth%d" % levels)
        if wrap:
            self.lab("shape:nested_try_in_" + wrap)
        outer_assigned = env.assigned
        env.assigned = set()
        base_ind = self.ind
        if wrap == "for":
            self.emit("for %s in range(2):" % self.fresh("x"))
            self.ind += 1
        elif wrap == "while":
            cn = self.fresh("n")
            self.emit("%s = 0" % cn)
            env.add(Var(cn, INT, frozen=True, form="counter"))
            self.emit("while %s < 2:" % cn)
            self.ind += 1
            self.emit("%s += 1" % cn)
        elif wrap == "with":
            self.emit("with Guard() as %s:" % self.fresh("g"))
            self.ind += 1
        body = env.clone()
        body.assigned = env.assigned
        body.ctx = env.ctx + ("try",) + (("loop",) if wrap in ("for", "while") else ())
        self.enter(body, "nested-try-body")
        bv = body.vars[v.name]
        self.assign_member(bv, r.choice(ms), body)
        self.emit("try:")
        self.ind += 1
        if r.random() < 0.4:
            self.emit("boom(%s)" % self.boom_arg(body))
        for lvl in range(1, levels):
            self.emit("try:")
            self.ind += 1
            if lvl < levels - 1 and r.random() < 0.5:
                self.assign_member(bv, r.choice(ms), body)
                self.emit("boom(%s)" % self.boom_arg(body))
        # innermost body: assignments to different members around raising calls
        seq = r.sample(ms, min(len(ms), r.choice([2, 2, 3]))) if len(ms) > 1 else ms
        for i, m in enumerate(seq):
            self.assign_member(bv, m, body)
            if r.random() < 0.4:
                self.emit(self.probe(bv.name, body, bv))
            self.emit("boom(%s)" % self.boom_arg(body))
        # close the inner levels with handlers that cannot catch ValueError/KeyError, or with finally
        for lvl in range(levels - 1, 0, -1):
            self.ind -= 1
            kind = r.choice(["except-E1", "finally", "except-E1-finally"])
            if kind.startswith("except"):
                self.emit("except E1:")
                self.emit("    " + self.probe(self.atom(r.choice([INT, STR]), body)[0], body, form="handler-neutral"))
            if kind.endswith("finally"):
                self.emit("finally:")
                self.emit("    " + self.probe(self.atom(r.choice([INT, STR]), body)[0], body, form="finally-neutral"))
            if lvl > 1 and r.random() < 0.4:
                self.assign_member(bv, r.choice(ms), body)
                self.emit("boom(%s)" % self.boom_arg(body))
        self.ind -= 1
        ends = [body]
        for h in r.choice([["(ValueError, KeyError)"], ["ValueError", "KeyError"], ["(ValueError, KeyError)"]]):
            he = env.clone()
            he.assigned = env.assigned
            he.ctx = env.ctx + ("except",)
            self.enter(he, "nested-try-outer-handler")
            hv = he.vars[v.name]
            hv.cur, hv.form = hv.decl, "outer-except-entry"
            self.emit("except %s:" % h)
            self.ind += 1
            self.emit(self.probe(hv.name, he, hv))
            t = self.narrow_test(hv, he)
            if t is not None and r.random() < 0.6:
                code, yes, _no, form = t
                if yes != NEVER:
                    self.emit("if %s:" % code)
                    ye = he.clone()
                    self.enter(ye, form + "+")
                    ye.vars[v.name].cur, ye.vars[v.name].form = yes, form + "+"
                    self.ind += 1
                    self.emit(self.probe(v.name, ye, ye.vars[v.name]))
                    if yes[0] not in ("union", "object"):
                        u = self.use_expr(ye.vars[v.name], ye)
                        if u is not None:
                            self.emit(self.probe(u, ye, form="use:" + form + "+"))
                    self.ind -= 1
            self.ind -= 1
            ends.append(he)
        if r.random() < 0.3:
            self.emit("finally:")
            self.emit("    " + self.probe(self.atom(INT, env)[0], env, form="finally-neutral"))
        self.ind = base_ind
        for e2 in ends:
            e2.vars = {k: x for k, x in e2.vars.items() if k in env.vars}
        assigned = env.assigned | {v.name}
        env.assigned = outer_assigned
        env.assigned |= assigned
        for nme in assigned:
            if nme in env.vars:
                env.vars[nme].cur, env.vars[nme].form = env.vars[nme].decl, "after-nested-try"
        self.emit(self.probe(v.name, env, env.vars[v.name]))

    CLOSURE_POSITIONS = ("plain", "if", "else", "for-body", "for-else", "while-body", "while-else", "with-body", "try-body", "except", "try-else", "finally", "match-case", "aug", "match-mapping-rest", "depth2-if-for-else", "depth2-for-if", "depth2-try-for-else", "walrus")

    def s_closure_shape(self, env: Env, depth: int) -> None:
        """(B) a closure defined after a local was narrowed reads it; LATER the enclosing function re-assigns the local to
        another member of its declared type at a systematically varied statement position; then the closure is called."""
        r = self.rnd
        if "nested" in env.ctx:
            return self.s_probe(env, depth)
        pos = r.choice(self.CLOSURE_POSITIONS)
        v = None
        special = pos in ("aug", "match-mapping-rest")
        if special:
            # aug: `x += Vec(..)` turns an int into a Vec through Vec.__radd__ (or `x += 0.5` an int into a float);
            # match-mapping-rest: `case {"a": 1, **x}` binds x to a dict
            other = (r.choice([VEC, FLOAT]) if self.cfg.on("ops") else FLOAT) if pos == "aug" else ("dict", STR, INT)
            t = union([INT, other] + ([NONE] if r.random() < 0.3 else []))
            n = self.fresh("v")
            self.emit("%s: %s = %s" % (n, render(t), r.choice(["0", "3"])))
            v = env.add(Var(n, t, form="assign"))
            ms = [INT, other]
            m1, m2 = INT, other
        else:
            v = self.shape_var(env, need_none=r.random() < 0.4)
            ms = self.simple_members(v)
            m1 = r.choice([m for m in ms if m != NONE] or ms)
            m2 = r.choice([m for m in ms if m != m1] or ms)
        self.lab("shape:closure")
        self.lab("shape:closure_reassign_at:" + pos)
        # 1. narrow
        how = r.choice(["assign", "none-default", "isinstance-default"])
        if how == "none-default" and NONE in v.decl[1] and not special:
            self.emit("if %s is None:" % v.name)
            self.ind += 1
            self.assign_member(v, m1, env)
            self.ind -= 1
            v.cur, v.form = union([m for m in v.decl[1] if m != NONE]), "none-default"
        elif how == "isinstance-default" and m1[0] in ("int", "str", "bytes", "cls") and not special:
            self.emit("if not isinstance(%s, %s):" % (v.name, m1[1] if m1[0] == "cls" else m1[0]))
            self.ind += 1
            self.assign_member(v, m1, env)
            self.ind -= 1
            v.cur, v.form = v.decl, "isinstance-default"
        else:
            how = "assign"
            self.assign_member(v, m1, env)
        self.lab("shape:closure_narrowed_by:" + how)
        self.emit(self.probe(v.name, env, v))
        # 2. the closure (nested def, or a lambda bound to an annotated name)
        cname = self.fresh("inner")
        inner = Env(v.decl, env.rank, env.mrank)
        inner.ctx = env.ctx + ("nested",)
        inner.regions = env.regions
        self.enter(inner, "closure-body")
        iv = inner.add(Var(v.name, v.decl, frozen=True, form="captured-before-reassign-at:" + pos))
        if r.random() < 0.3:
            self.lab("shape:closure_lambda")
            self.emit("%s: Callable[[], %s] = lambda: %s" % (cname, render(v.decl), self.probe(v.name, inner, iv)))
        else:
            self.emit("def %s() -> %s:" % (cname, render(v.decl)))
            self.ind += 1
            self.emit(self.probe(v.name, inner, iv))
            t = self.narrow_test(iv, inner) if not special else None
            if t is not None and t[1] != NEVER and r.random() < 0.5:
                code, yes, _no, form = t
                self.emit("if %s:" % code)
                ye = inner.clone()
                self.enter(ye, form + "+")
                ye.vars[v.name].cur, ye.vars[v.name].form = yes, form + "+"
                self.ind += 1
                self.emit(self.probe(v.name, ye, ye.vars[v.name]))
                if yes[0] not in ("union", "object"):
                    u = self.use_expr(ye.vars[v.name], ye)
                    if u is not None:
                        self.emit(self.probe(u, ye, form="use:" + form + "+"))
                self.ind -= 1
            self.emit("return %s" % v.name)
            self.ind -= 1
        if r.random() < 0.5:
            self.emit(self.probe("%s()" % cname, env, form="closure-result-before-reassign"))
        # 3. re-assignment at the chosen position
        base_ind = self.ind
        code2 = self.atom(m2, env)[0] if not special else "0"
        asg = "%s = %s" % (v.name, code2)
        E = self.emit

        def blk(header: str) -> None:
            E(header)
            self.ind += 1

        def end() -> None:
            self.ind -= 1

        if pos == "plain":
            E(asg)
        elif pos == "aug":
            E("%s += %s" % (v.name, "Vec(1, 2)" if m2 == VEC else "0.5"))
        elif pos == "match-mapping-rest":
            blk('match {"a": 1, "b": 2}:'); blk('case {"a": 1, **%s}:' % v.name); E("pass"); end(); end()
        elif pos == "walrus":
            E(self.probe("(%s := %s)" % (v.name, code2), env, form="walrus-target"))
        elif pos == "if":
            blk("if %s:" % self.atom(BOOL, env)[0]); E(asg); end()
        elif pos == "else":
            blk("if %s:" % self.atom(BOOL, env)[0]); E("pass"); end(); blk("else:"); E(asg); end()
        elif pos == "for-body":
            blk("for %s in range(2):" % self.fresh("x")); E(asg); end()
        elif pos == "for-else":
            blk("for %s in range(%s):" % (self.fresh("x"), r.choice(["0", "1", "2"]))); E("pass"); end(); blk("else:"); E(asg); end()
        elif pos in ("while-body", "while-else"):
            cn = self.fresh("n")
            E("%s = 0" % cn)
            env.add(Var(cn, INT, frozen=True, form="counter"))
            blk("while %s < 2:" % cn); E("%s += 1" % cn)
            if pos == "while-body":
                E(asg); end()
            else:
                end(); blk("else:"); E(asg); end()
        elif pos == "with-body":
            blk("with Guard() as %s:" % self.fresh("g")); E(asg); end()
        elif pos == "try-body":
            blk("try:"); E(asg); E("boom(%s)" % self.boom_arg(env)); end(); blk("except (ValueError, KeyError):"); E("pass"); end()
        elif pos == "except":
            blk("try:"); E("boom(%s)" % r.choice(["0", "1", self.boom_arg(env)])); end(); blk("except (ValueError, KeyError):"); E(asg); end()
        elif pos == "try-else":
            blk("try:"); E("boom(%s)" % r.choice(["2", "5", self.boom_arg(env)])); end(); blk("except (ValueError, KeyError):"); E("pass"); end(); blk("else:"); E(asg); end()
        elif pos == "finally":
            blk("try:"); E("boom(%s)" % r.choice(["2", "5"])); end(); blk("finally:"); E(asg); end()
        elif pos == "match-case":
            blk("match %s:" % self.atom(INT, env)[0]); blk("case 1 | 2:"); E("pass"); end(); blk("case _:"); E(asg); end(); end()
        elif pos == "depth2-if-for-else":
            blk("if %s:" % r.choice(["True", self.atom(BOOL, env)[0]])); blk("for %s in range(1):" % self.fresh("x")); E("pass"); end(); blk("else:"); E(asg); end(); end()
        elif pos == "depth2-for-if":
            blk("for %s in range(2):" % self.fresh("x")); blk("if %s:" % r.choice(["True", self.atom(BOOL, env)[0]])); E(asg); end(); end()
        elif pos == "depth2-try-for-else":
            blk("try:"); blk("for %s in range(1):" % self.fresh("x")); E("boom(2)"); end(); blk("else:"); E(asg); end(); end(); blk("except ValueError:"); E("pass"); end()
        self.ind = base_ind
        env.assigned.add(v.name)
        v.cur, v.form = v.decl, "reassigned-after-closure:" + pos
        # 4. call the closure after the re-assignment
        self.emit(self.probe("%s()" % cname, env, form="closure-result-after-reassign"))
        self.emit(self.probe(v.name, env, v))

    # ---- (D) in-place operators whose result is wider than the receiver ---------------------------------
    def s_inplace_shape(self, env: Env, depth: int) -> None:
        """Accepted uses of Money.__iadd__/__isub__/__ior__/__imul__/__radd__ (results Money / Money | int, receivers may
        be Wallet/Purse), plus SLOT lines inside narrowed regions that a prepared edit turns into `x op= y` (ill-typed
        neighbour: the result no longer fits the narrowed type, and a use valid only for the narrowed type follows)."""
        r = self.rnd
        if not hasattr(self, "edits"):
            self.edits = []
        self.lab("shape:inplace")
        mk = lambda: r.choice(["Wallet(%s)", "Money(%s)", "Purse(%s)", "Wallet(%s)"]) % r.choice(["1", "3", "8"])
        variant = r.choice(["declared", "radd-fallback", "slot-isinstance", "slot-isinstance", "slot-assign-union"])
        self.lab("shape:inplace:" + variant)
        if variant == "declared":
            n = self.fresh("mv")
            self.emit("%s: Money = %s" % (n, mk()))
            self.emit("%s %s" % (n, r.choice(["+= %s" % self.e(INT, env, 1), "|= Money(2)", "*= 2", "+= 1"])))
            self.emit(self.probe(n, env, form="after-inplace-op"))
            self.emit(self.probe("%s.cents" % n, env, form="use:after-inplace-op"))
        elif variant == "radd-fallback":
            n = self.fresh("uv")
            self.emit("%s: int | Money | None = None" % n)
            self.emit("%s = %s" % (n, r.choice(["3", "0", "7"])))
            self.emit("%s += Money(2)" % n)
            self.emit(self.probe(n, env, form="after-radd-fallback"))
            self.emit(self.probe("%s.cents" % n, env, form="use:after-radd-fallback"))
        elif variant == "slot-isinstance":
            n = self.fresh("mv")
            sub, use = r.choice([("Wallet", "owner()"), ("Purse", "clasp()")])
            self.emit("%s: Money = %s" % (n, mk()))
            self.emit("if isinstance(%s, %s):" % (n, sub))
            ye = env.clone()
            self.enter(ye, "isinstance+")
            self.ind += 1
            self.emit(self.probe(n, ye, form="isinstance+"))
            slot = self.probe("%s.cents" % n, ye, form="inplace-slot")
            self.emit(slot)
            op = r.choice(["+= 5", "-= 1", "|= Money(1)", "*= 2"])
            self.edits.append({"kind": "inplace-op-on-narrowed", "old": slot, "new": "%s %s" % (n, op), "detail": "inside `isinstance(%s, %s)`: `%s %s` inserted before `%s.%s` (Money's in-place operators return Money / Money | int)" % (n, sub, n, op, n, use)})
            self.emit(self.probe("%s.%s" % (n, use), ye, form="use:isinstance+"))
            self.ind -= 1
        else:
            n = self.fresh("uv")
            self.emit("%s: int | Money | None = None" % n)
            self.emit("%s = Money(3)" % n)
            slot = self.probe(n, env, form="inplace-slot")
            self.emit(slot)
            self.edits.append({"kind": "inplace-op-on-narrowed", "old": slot, "new": "%s -= 10" % n, "detail": "`%s: int | Money | None` narrowed to Money by assignment: `%s -= 10` (Money.__isub__ -> Money | int) inserted before `%s.cents`" % (n, n, n)})
            self.emit(self.probe("%s.cents" % n, env, form="use:assign"))

    # ---- (C) sequence patterns against variadic tuples -----------------------------------------------------
    VT_ATOMS = {"int": ["1", "0", "7"], "str": ['"a"', '""', '"xy"'], "bytes": ['b"x"', 'b""'], "bool": ["True", "False"]}

    def vt_function(self, idx: int) -> list:
        """A function matching a variadic-tuple parameter against star patterns with k non-star sub-patterns for k around
        the number of fixed items, followed by shorter arms and `case _`, all with probes.  -> driver call texts that
        pass tuples of every small length."""
        r = self.rnd
        pool = [INT, STR, BYTES, BOOL]
        prefix = [r.choice(pool) for _ in range(r.choice([0, 1, 1, 2]))]
        suffix = [r.choice(pool) for _ in range(r.choice([0, 0, 1]))]
        elem = r.choice(pool)
        t = ("vartup", tuple(prefix), elem, tuple(suffix))
        fixed = len(prefix) + len(suffix)
        name = "vt%d" % idx
        self.lab("shape:vartuple_match")
        self.lab("shape:vartuple_prefix%d_suffix%d" % (len(prefix), len(suffix)))
        self.emit("def %s(x: %s, flag: bool) -> int:" % (name, render(t)))
        env = Env(INT, 0, None)
        self.enter(env, "function")
        xv = env.add(Var("x", t, frozen=True))
        self.ind += 1
        self.emit(self.probe("x", env, xv))
        self.emit("match x:")
        self.ind += 1

        kinds_here = sorted({m[0] for m in prefix + suffix + [elem]})
        lits = {"int": "1", "str": '"a"', "bytes": 'b"x"', "bool": "True"}

        def subpattern(cap: str, kind: str | None = None) -> str:
            # refutable sub-patterns only test for the class / a literal of the item type at their position (an arm mypy
            # can prove impossible makes every capture in it an error, i.e. a rejected program)
            c = r.random()
            kind = kind or r.choice(kinds_here)
            if c < 0.6:
                return cap
            if c < 0.8:
                return "%s() as %s" % (kind, cap)
            if c < 0.9:
                return lits[kind]
            return "_"

        def kind_at(i: int, n_before: int, n_after: int) -> str:
            """item type at pattern position i of n_before + [star] + n_after (as mypy lines them up)"""
            if i < n_before:
                return (prefix[i] if i < len(prefix) else elem)[0]
            j = n_before + n_after - 1 - i  # distance from the end
            return (suffix[len(suffix) - 1 - j] if j < len(suffix) else elem)[0]

        def arm(pat: str, caps: list, form: str, guard: bool) -> None:
            ce = env.clone()
            ce.ctx = ("match",)
            self.enter(ce, form)
            self.emit("case %s%s:" % (pat, " if flag" if guard else ""))
            self.ind += 1
            for c in caps:
                if ("as " + c) in pat or ("*" + c) in pat or c in [q.strip() for q in pat.strip("()[]").split(",")]:
                    self.emit(self.probe(c, ce, form="match-capture"))
            cx = ce.vars["x"]
            cx.form = form
            self.emit(self.probe("x", ce, cx))
            if r.random() < 0.5:
                self.emit(self.probe("len(x)", ce, form="use:" + form))
            self.ind -= 1

        ks = sorted({k for k in (fixed - 1, fixed, fixed + 1, fixed + 2) if k >= 0})
        for k in r.sample(ks, min(len(ks), r.choice([1, 2, 2]))):
            before = r.randint(0, k)
            np_, ns_ = len(prefix), len(suffix)
            if k <= fixed and (before > np_ or k - before > ns_):
                # fenced off: mypy lines pattern items up with the ITEMS of the tuple type, the `*tuple[X, ...]` item
                # counting as one; a star pattern no longer than the fixed part that does not line up with prefix/suffix
                # kills mypy (AssertionError in find_unpack_in_list: two unpacks in one tuple type) ...
                self.lab("excluded:vartuple-star-pattern-misaligned(mypy-crash)")
                before = r.randint(max(0, k - ns_), min(np_, k))
            elif k > fixed and (before < np_ or k - before < ns_):
                # ... and a longer one that leaves fixed items of one side to the star is skipped as unreachable although
                # it matches at run time (known finding, witness replay kept)
                self.lab("excluded:vartuple-star-pattern-misaligned(unreachable)")
                before = r.randint(np_, k - ns_)
            after = k - before
            caps = [self.fresh("k") for _ in range(k)]
            rest = self.fresh("k")
            star = "*" + rest if r.random() < 0.8 else "*_"
            items = [subpattern(c, kind_at(i, before, after)) for i, c in enumerate(caps[:before])] + [star] + [subpattern(c, kind_at(before + i, before, after)) for i, c in enumerate(caps[before:])]
            pat = "(%s)" % "".join(i + ", " for i in items) if r.random() < 0.6 else "[%s]" % ", ".join(items)
            self.lab("shape:vartuple_star_arm_k=fixed%+d" % (k - fixed))
            arm(pat, caps + [rest], "match-vartuple-star", r.random() < 0.2)
        for n in r.sample([0, 1, 2, 3], r.choice([0, 1, 2])):
            caps = [self.fresh("k") for _ in range(n)]
            if n < fixed:
                continue  # a tuple of this type is never that short
            kinds_n = [p_[0] for p_ in prefix] + [elem[0]] * (n - fixed) + [q_[0] for q_ in suffix]
            pat = "(%s)" % "".join(subpattern(c, kinds_n[i]) + ", " for i, c in enumerate(caps))
            arm(pat, caps, "match-vartuple-fixed-length", False)
        if r.random() < 0.85:
            arm("_", [], "match-rest", False)
        self.ind -= 1
        self.emit(self.probe("x", env, xv, form="merge-match"))
        self.emit("return len(x)")
        self.ind -= 1
        self.emit("")
        self.emit("")
        calls = []
        at = lambda ty: r.choice(self.VT_ATOMS[ty[0]])
        for extra in range(0, 4):
            items = [at(p) for p in prefix] + [at(elem) for _ in range(extra)] + [at(q) for q in suffix]
            calls.append("%s((%s), %s)" % (name, "".join(i + ", " for i in items), r.choice(["True", "False"])))
        return calls

    # ---- nested functions
    def s_nested(self, env: Env, depth: int) -> None:
        r = self.rnd
        name = self.fresh("inner")
        sig = Sig([(self.fresh("a"), self.w.rand_type(1)) for _ in range(r.choice([0, 1, 2]))], self.w.rand_type(1))
        self.emit("def %s(%s) -> %s:" % (name, ", ".join("%s: %s" % (n, render(t)) for n, t in sig.params), render(sig.ret)))
        inner = Env(sig.ret, env.rank, env.mrank)
        inner.ctx = env.ctx + ("nested",)
        inner.regions = env.regions
        self.enter(inner, "nested-def")
        inner.lfuncs = list(env.lfuncs)
        for v in env.vars.values():
            if v.decl[0] == "tv":
                continue
            # captured variables: read-only, believed at their declared type
            inner.add(Var(v.name, v.decl, frozen=True, form="captured"))
        for n, t in sig.params:
            inner.add(Var(n, t))
        self.ind += 1
        caps = [v for v in inner.vars.values() if v.form == "captured" and v.decl[0] == "union"]
        if caps:
            cv = r.choice(caps)
            self.emit(self.probe(cv.name, inner, cv))
        self.block(inner, min(depth - 1, 1), r.choice([1, 2, 3]))
        if not inner.dead:
            self.emit("return %s" % self.e(sig.ret, inner, 2))
        self.ind -= 1
        env.lfuncs.append((name, sig))
        self.lab("nested_functions")

    # ---- functions, methods, classes, drivers
    def function(self, name: str, sig: Sig, rank: int, mrank: int | None, self_cls: str | None = None, tv: Ty | None = None) -> None:
        ps = []
        if self_cls:
            ps.append("self")
        npos = len(sig.params) - sig.kwonly
        for i, (n, t) in enumerate(sig.params):
            if i == npos and sig.kwonly:
                ps.append("*")
            ps.append("%s: %s%s" % (n, render(t), " = " + sig.defaults[n] if n in sig.defaults else ""))
        self.emit("def %s(%s) -> %s:" % (name, ", ".join(ps), render(sig.ret)))
        env = Env(sig.ret, rank, mrank)
        self.enter(env, "function")
        if self_cls:
            env.add(Var("self", ("cls", self_cls), frozen=True))
        for n, t in sig.params:
            env.add(Var(n, t))
        self.ind += 1
        for n, t in sig.params:
            if self.rnd.random() < 0.5:
                self.emit(self.probe(n, env, env.vars[n]))
            if t[0] not in ("union", "object", "tv", "none") and self.rnd.random() < 0.6:
                code = self.use_expr(env.vars[n], env)
                if code is not None:
                    self.emit(self.probe(code, env, form="use:decl"))
        depth = self.cfg.max_depth if not self_cls else max(1, self.cfg.max_depth - 2)
        n = self.nstm(self.cfg.max_depth) if not self_cls else self.rnd.choice([1, 2])
        self.block(env, depth, n)
        if not env.dead and not self_cls and self.cfg.on("try") and self.rnd.random() < 0.2:
            self.s_nested_try_shape(env, 2)
        if not env.dead and not self_cls and self.cfg.on("nested") and self.rnd.random() < 0.2:
            self.s_closure_shape(env, 2)
        if not env.dead:
            if sig.ret == NONE and self.rnd.random() < 0.6:
                pass
            else:
                self.emit("return %s" % self.rhs(sig.ret, env)[0])
        self.ind -= 1
        self.emit("")
        self.emit("")

    def class_src(self, ci: ClassInfo) -> None:
        w, r = self.w, self.rnd
        if ci.flavor == "data":
            self.emit("@dataclasses.dataclass")
            self.emit("class %s:" % ci.name)
            self.ind += 1
            for f, t in ci.fields:
                self.emit("%s: %s" % (f, render(t)))
        elif ci.flavor == "nt":
            self.emit("class %s(NamedTuple):" % ci.name)
            self.ind += 1
            for f, t in ci.fields:
                self.emit("%s: %s" % (f, render(t)))
        else:
            self.emit("class %s%s:" % (ci.name, "(%s)" % ", ".join(ci.bases) if ci.bases else ""))
            self.ind += 1
            if ci.flavor == "plain":
                self.emit("def __init__(self, %s) -> None:" % ", ".join("%s: %s" % (f, render(t)) for f, t in ci.fields))
                self.ind += 1
                base = next((b for b in ci.bases if w.classes[b].flavor == "plain"), None)
                if base:
                    self.emit("super().__init__(%s)" % ", ".join(f for f, _ in w.classes[base].fields))
                for f, _ in ci.own_fields:
                    self.emit("self.%s = %s" % (f, f))
                if not base and not ci.own_fields:
                    self.emit("pass")
                self.ind -= 1
                self.emit("")
            elif not ci.own_methods:
                self.emit("pass")
        for m in ci.own_methods:
            self.function(m, w.method_sig[m], 0, w.method_rank[m], self_cls=ci.name)
        if ci.flavor in ("data", "nt") and not ci.own_methods:
            pass
        self.ind -= 1
        self.emit("")
        self.emit("")

    def proto_src(self) -> None:
        for p, (m, sig, _) in self.w.protos.items():
            self.emit("class %s(Protocol):" % p)
            self.emit("    def %s(self%s) -> %s: ..." % (m, "".join(", %s: %s" % (n, render(t)) for n, t in sig.params), render(sig.ret)))
            self.emit("")
            self.emit("")

    def drivers(self) -> list:
        w, r = self.w, self.rnd
        names = []
        targets = [(name, sig) for name, sig, _ in w.funcs]
        for ci in w.classes.values():
            if ci.flavor in ("plain", "data"):
                for m, sig in ci.methods.items():
                    targets.append((("cls", ci.name, m), sig))
        k = 0
        for callee, sig in targets:
            pools = []
            for _, t in sig.params:
                vs = list(w.values(t))
                r.shuffle(vs)
                pools.append(vs or ["None"])
            ncalls = min(5, max([len(p) for p in pools] + [1])) if not isinstance(callee, tuple) else 1
            for c in range(ncalls):
                argv = [p[c % len(p)] for p in pools]
                npos = len(sig.params) - sig.kwonly
                parts = []
                force_kw = False
                kw_from = r.randint(0, npos) if (self.cfg.on("kwargs") and r.random() < 0.35) else npos
                for i, ((pn, _), a) in enumerate(zip(sig.params, argv)):
                    if pn in sig.defaults and r.random() < 0.25:
                        force_kw = True
                        continue
                    parts.append("%s=%s" % (pn, a) if (i >= npos or i >= kw_from or force_kw) else a)
                if isinstance(callee, tuple):
                    recv = r.choice(w.values(("cls", callee[1]), 1))
                    call = "%s.%s(%s)" % (recv, callee[2], ", ".join(parts))
                else:
                    call = "%s(%s)" % (callee, ", ".join(parts))
                dn = "drv_%d" % k
                k += 1
                self.emit("def %s() -> None:" % dn)
                e0 = Env(NONE, 0, None)
                e0.ctx = ("driver",)
                self.emit("    " + (self.probe(call, e0, form="driver-result") if sig.ret not in (NEVER, NONE) else call))
                self.emit("")
                self.emit("")
                names.append(dn)
        return names

    # ---- whole program
    def program(self, seed: int) -> Program:
        w, r, cfg = self.w, self.rnd, self.cfg
        w.build()
        self.out = PRELUDE.split("\n")
        self.out += w.enum_src()
        self.proto_src()
        for ci in list(w.classes.values()):
            if ci.flavor in ("lib", "exc"):
                continue
            self.class_src(ci)
        dummy = Env(NONE, 0, None)
        # bounded type variable + generic functions over it
        gfuncs = []
        plain = [c for c in w.classes.values() if c.flavor == "plain" and len(w.subclasses(c.name)) > 1]
        if cfg.on("tvfunc") and plain and r.random() < 0.6:
            b = r.choice(plain)
            tvn = "TB0"
            tv = ("tv", tvn, ("cls", b.name))
            self.emit('%s = TypeVar("%s", bound=%s)' % (tvn, tvn, b.name))
            self.emit("")
            self.emit("")
            sig = Sig([("x", tv), ("ys", ("seq", tv))] + ([("o", w.rand_type(1))] if r.random() < 0.5 else []), r.choice([tv, tv, ("list", tv), opt(tv)]))
            self.function("g0", sig, 0, None)
            gfuncs.append(("g0", sig, tv))
            self.lab("generic_functions")
        nf = r.randint(*cfg.n_funcs)
        for i in range(nf):
            params = [("p%d" % j, w.param_type()) for j in range(r.choice([1, 2, 2, 3, 3, 4]))]
            sig = Sig(params, w.ret_type())
            for j in range(len(params) - 1, -1, -1):
                pn, pt = params[j]
                if all(m[0] in ("int", "str", "bool", "float", "none", "lit", "enum", "bytes") for m in members(pt)) and r.random() < 0.35:
                    sig.defaults[pn] = self.atom(pt, dummy)[0]
                else:
                    break
            if cfg.on("kwargs") and r.random() < 0.25:
                sig.kwonly = r.randint(1, max(1, len(params) - 1)) if len(params) > 1 else 0
            self.function("f%d" % i, sig, i, None)
            w.funcs.append(("f%d" % i, sig, i))
        vt_drivers = []
        if cfg.on("match") and r.random() < 0.6:
            for i in range(r.choice([1, 1, 2])):
                vt_drivers += self.vt_function(i)
        drivers = self.drivers()
        for call in vt_drivers:
            dn = "drv_v%d" % len(drivers)
            self.emit("def %s() -> None:" % dn)
            e0 = Env(NONE, 0, None)
            e0.ctx = ("driver",)
            self.emit("    " + self.probe(call, e0, form="driver-result"))
            self.emit("")
            self.emit("")
            drivers.append(dn)
        for name, sig, tv in gfuncs:
            subs = [c for c in w.subclasses(tv[2][1]) if w.classes[c].flavor != "mixin"]
            for c in subs[:3]:
                vals = w.values(("cls", c), 1)
                a = r.choice(vals)
                ys = "[%s]" % ", ".join(r.choice(vals) for _ in range(r.choice([0, 1, 2])))
                extra = "".join(", " + r.choice(w.values(t, 1)) for _, t in sig.params[2:])
                dn = "drv_g%d" % len(drivers)
                self.emit("def %s() -> None:" % dn)
                e0 = Env(NONE, 0, None)
                e0.ctx = ("driver",)
                self.emit("    " + self.probe("%s(%s, %s%s)" % (name, a, ys, extra), e0, form="driver-generic-result"))
                self.emit("")
                self.emit("")
                drivers.append(dn)
        sigs = {}
        for name, sig, _ in w.funcs:
            sigs[name] = {"params": [(n, render(t), w.wrong_values(t)) for n, t in sig.params], "kwonly": sig.kwonly, "defaults": sorted(sig.defaults)}
        for m, sig in w.method_sig.items():
            sigs["." + m] = {"params": [(n, render(t), w.wrong_values(t)) for n, t in sig.params], "kwonly": 0, "defaults": []}
        for ci in w.classes.values():
            if ci.flavor in ("plain", "data", "nt"):
                sigs[ci.name] = {"params": [(n, render(t), w.wrong_values(t)) for n, t in ci.fields], "kwonly": 0, "defaults": []}
        fields = sorted({f for ci in w.classes.values() if ci.flavor in ("plain", "data", "nt") for f, _ in ci.fields})
        sigs["__attrs__"] = fields + sorted(w.method_sig)
        if getattr(w, "excluded_lit_tuples", 0):
            self.lab("excluded:literal-inside-tuple", w.excluded_lit_tuples)
        self.lab("probes", len(self.probes))
        self.lab("drivers", len(drivers))
        return Program("\n".join(self.out) + "\n", self.probes, drivers, sigs, self.labels, cfg.iaf, seed, list(getattr(self, "edits", [])))


def generate(seed: int, cfg: Cfg | None = None) -> Program:
    cfg = cfg or Cfg()
    last: Exception | None = None
    for attempt in range(6):
        g = FullGen(seed * 8 + attempt, cfg)
        try:
            p = g.program(seed)
            if attempt:
                p.labels["generator_restarts"] = attempt
            return p
        except GenFail as e:
            last = e
    raise GenFail("gave up: %s" % last)


# --------------------------------------------------------------------------- ill-typed neighbourhood (ast level)
NARROW_FUNCS = ("isinstance", "callable", "issubclass")


def _is_narrowing_test(t: ast.AST) -> bool:
    for n in ast.walk(t):
        if isinstance(n, ast.Call) and isinstance(n.func, ast.Name) and n.func.id in NARROW_FUNCS:
            return True
        if isinstance(n, ast.Compare) and any(isinstance(o, (ast.Is, ast.IsNot)) for o in n.ops):
            return True
    return False


def perturb(prog: Program, rnd: random.Random, k: int = 1) -> list:
    """Up to k single-edit neighbours of an accepted program: [{"kind", "detail", "text"}].
    Kinds: wrong-arg, wrong-kwarg, swap-args, drop-arg, bad-attr, remove-narrowing, widen-param."""
    sigs = prog.sigs
    attrs = set(sigs.get("__attrs__", []))
    out = []
    kinds = ["wrong-arg", "wrong-kwarg", "wrong-kwarg", "swap-args", "drop-arg", "bad-attr", "remove-narrowing", "remove-narrowing", "widen-param"]
    prepared = list(getattr(prog, "edits", None) or [])
    rnd.shuffle(prepared)
    if prepared:
        kinds += ["prepared", "prepared", "prepared"]
    tries = 0
    while len(out) < k and tries < 6 * k:
        tries += 1
        kind = rnd.choice(kinds)
        if kind == "prepared":
            if not prepared:
                continue
            ed = prepared.pop()
            lines = prog.text.split("\n")
            hit = [i for i, l in enumerate(lines) if l.strip() == ed["old"]]
            if len(hit) != 1:
                continue
            lines[hit[0]] = lines[hit[0]][: len(lines[hit[0]]) - len(lines[hit[0]].lstrip())] + ed["new"]
            out.append({"kind": ed["kind"], "detail": ed["detail"], "text": "\n".join(lines)})
            continue
        tree = ast.parse(prog.text)
        # skip the fixed library: edits only in generated code (after class Vec)
        start = next((n.end_lineno or 0 for n in tree.body if isinstance(n, ast.ClassDef) and n.name == "Vec"), 0)
        nodes = [n for n in ast.walk(tree) if getattr(n, "lineno", 0) > start]
        detail = None
        if kind in ("wrong-arg", "wrong-kwarg", "swap-args", "drop-arg"):
            calls = []
            for n in nodes:
                if isinstance(n, ast.Call):
                    key = n.func.id if isinstance(n.func, ast.Name) else ("." + n.func.attr if isinstance(n.func, ast.Attribute) else None)
                    if key in sigs and key != "__attrs__" and (n.args or n.keywords) and not any(isinstance(a, ast.Starred) for a in n.args):
                        calls.append((n, key))
            rnd.shuffle(calls)
            for n, key in calls:
                params = sigs[key]["params"]
                byname = {p[0]: p for p in params}
                slots = [("pos", i, params[i]) for i in range(min(len(n.args), len(params)))] + [("kw", j, byname[kw.arg]) for j, kw in enumerate(n.keywords) if kw.arg in byname]
                if kind == "wrong-arg":
                    cand = [s for s in slots if s[2][2] and s[0] == "pos"]
                elif kind == "wrong-kwarg":
                    cand = [s for s in slots if s[2][2] and s[0] == "kw"]
                elif kind == "swap-args":
                    cand = [s for s in slots if s[0] == "pos"]
                else:
                    cand = [s for s in slots if s[2][0] not in sigs[key].get("defaults", [])]
                if not cand:
                    continue
                if kind in ("wrong-arg", "wrong-kwarg"):
                    how, idx, p = rnd.choice(cand)
                    val = ast.parse(rnd.choice(p[2]), mode="eval").body
                    if how == "pos":
                        n.args[idx] = val
                    else:
                        n.keywords[idx].value = val
                    detail = "%s: argument %s (declared %s) := %s" % (key, p[0], p[1], ast.unparse(val))
                elif kind == "swap-args":
                    if len(cand) < 2:
                        continue
                    a, b = rnd.sample(cand, 2)
                    if a[2][1] == b[2][1]:
                        continue
                    n.args[a[1]], n.args[b[1]] = n.args[b[1]], n.args[a[1]]
                    detail = "%s: swapped arguments %s (%s) and %s (%s)" % (key, a[2][0], a[2][1], b[2][0], b[2][1])
                else:
                    how, idx, p = rnd.choice(cand)
                    if how == "pos":
                        if idx != len(n.args) - 1:
                            idx = len(n.args) - 1
                            p = params[idx]
                            if p[0] in sigs[key].get("defaults", []):
                                continue
                        del n.args[idx]
                    else:
                        del n.keywords[idx]
                    detail = "%s: dropped argument %s" % (key, p[0])
                break
        elif kind == "bad-attr":
            cand = [n for n in nodes if isinstance(n, ast.Attribute) and isinstance(n.ctx, ast.Load) and n.attr in attrs]
            if cand:
                n = rnd.choice(cand)
                detail = "attribute %s -> %s_zz" % (n.attr, n.attr)
                n.attr = n.attr + "_zz"
        elif kind == "remove-narrowing":
            cand = [n for n in nodes if isinstance(n, (ast.If, ast.IfExp, ast.While)) and _is_narrowing_test(n.test)]

            def relies(n: ast.AST) -> bool:
                # the guarded body uses the narrowed value in a type-specific way (a `use:` probe)
                for b in (n.body if isinstance(n.body, list) else [n.body]):
                    for c in ast.walk(b):
                        if isinstance(c, ast.Call) and isinstance(c.func, ast.Name) and c.func.id == "probe" and len(c.args) == 2 and isinstance(c.args[1], ast.Constant):
                            m = prog.probes.get(c.args[1].value) or prog.probes.get(str(c.args[1].value)) or {}
                            if str(m.get("form", "")).startswith("use:") and not str(m.get("form")).endswith(":decl"):
                                return True
                return False

            strong = [n for n in cand if relies(n)]
            if strong and rnd.random() < 0.8:
                cand = strong
            if cand:
                n = rnd.choice(cand)
                detail = "test `%s` at line %d replaced by %s" % (ast.unparse(n.test)[:80], n.lineno, "True" if not isinstance(n, ast.While) else "the loop bound only")
                if isinstance(n, ast.While) and isinstance(n.test, ast.BoolOp) and isinstance(n.test.op, ast.And):
                    n.test = n.test.values[0]
                else:
                    n.test = ast.Constant(True)
        elif kind == "widen-param":
            funcs = [n for n in tree.body if isinstance(n, ast.FunctionDef) and n.name in sigs and n.name.startswith("f")]
            rnd.shuffle(funcs)
            for fn in funcs:
                params = sigs[fn.name]["params"]
                cand = [(i, a) for i, a in enumerate(fn.args.args) if a.annotation is not None and "None" not in ast.unparse(a.annotation) and "object" not in ast.unparse(a.annotation) and i < len(params)]
                if not cand:
                    continue
                i, a = rnd.choice(cand)
                # a driver call that passes this parameter positionally gets None there
                done = False
                for d in tree.body:
                    if isinstance(d, ast.FunctionDef) and d.name.startswith("drv_"):
                        for c in ast.walk(d):
                            if isinstance(c, ast.Call) and isinstance(c.func, ast.Name) and c.func.id == fn.name:
                                if i < len(c.args):
                                    c.args[i] = ast.Constant(None)
                                    done = True
                                else:
                                    for kw in c.keywords:
                                        if kw.arg == a.arg:
                                            kw.value = ast.Constant(None)
                                            done = True
                                break
                    if done:
                        break
                if done:
                    detail = "%s: parameter %s widened from %s to Optional, body unchanged, one driver passes None" % (fn.name, a.arg, ast.unparse(a.annotation))
                    a.annotation = ast.BinOp(a.annotation, ast.BitOr(), ast.Constant(None))
                    break
        if detail is None:
            continue
        ast.fix_missing_locations(tree)
        out.append({"kind": kind, "detail": detail, "text": ast.unparse(tree) + "\n"})
    return out
