"""G2: multi-module projects and edit histories.

A project is a JSON-able state: modules with *exports* (functions, classes, constants,
aliases, generics, protocols, NamedTuple/TypedDict/dataclass/enum, overloads,
decorators) and *uses* of other modules' exports (the cross-module dependency carriers:
call/return types, inherited classes with overrides, attribute types, inferred variables,
re-exports, star imports, Final constants, function-level and TYPE_CHECKING imports).
Edit operations are concrete JSON dicts; applying an op whose target has vanished is a
no-op, so histories can be minimised by deleting ops.
"""
from __future__ import annotations

import copy
import json
import random

TYPES = ["int", "str", "bytes", "float", "bool", "None", "list[int]", "dict[str, int]", "int | None", "tuple[int, str]"]
LIT = {
    "int": "1", "str": "'s'", "bytes": "b'b'", "float": "1.5", "bool": "True", "None": "None", "list[int]": "[1]",
    "dict[str, int]": "{'k': 1}", "int | None": "None", "tuple[int, str]": "(1, 's')",
}
EXPORT_KINDS = ["func", "func", "cls", "cls", "const", "alias", "box", "proto", "nt", "td", "dc", "enum", "ovl", "deco", "reexport", "cfn"]
IMPORT_STYLES = ["import", "import", "from", "star", "func", "tc", "frompkg"]


def new_export(rnd: random.Random, kind: str, state=None, mod=None) -> dict:
    t = lambda: rnd.choice(TYPES)
    e = {"kind": kind, "p": t(), "r": t(), "t": t(), "t2": t(), "ok": rnd.random() < 0.93}
    if kind == "cls":
        e["base"] = None
        e["inferred"] = rnd.random() < 0.4
    return e


def new_use(rnd: random.Random, i: int, dep: str, ename: str) -> dict:
    u = {"id": i, "dep": dep, "name": ename, "t": rnd.choice(TYPES), "a": rnd.choice(TYPES), "form": rnd.randrange(3), "ignore": False}
    # a quarter of the uses of class-like exports mention the class in a SIGNATURE ONLY (no expression refers to it):
    # the dependency then exists only through the type annotation (drawn from the id, not from `rnd`, so that the
    # rest of a history is the same with and without this feature)
    k = random.Random(i * 7919 + len(ename)).randrange(4 * len(SIG_WRAPS))
    if k < len(SIG_WRAPS):
        u["sig"] = k
    return u


# annotation-only mentions of a class R of another module
SIG_WRAPS = [
    ["def sg%(i)d(v: object) -> TypeIs[%(r)s]:", "    return True"],
    ["def sg%(i)d(v: object) -> TypeGuard[%(r)s]:", "    return True"],
    ["sg%(i)d: Callable[[%(r)s], None] = lambda a: None"],
    ["def sg%(i)d(v: type[%(r)s]) -> None: ..."],
    ["def sg%(i)d(*a: %(r)s, **k: %(r)s) -> None: ..."],
    ["sg%(i)d: list[tuple[%(r)s, ...]] = []"],
    ["class SG%(i)d(Generic[T]): ...", "sgv%(i)d: SG%(i)d[%(r)s] | None = None"],
    ["def sg%(i)d() -> Callable[[], %(r)s] | None:", "    return None"],
    ["SGT%(i)d = TypeVar('SGT%(i)d', bound=%(r)s)", "def sgb%(i)d(v: SGT%(i)d) -> SGT%(i)d:", "    return v"],
    ["class SGN%(i)d(NamedTuple):", "    f: %(r)s | None"],
    ["class SGD%(i)d(TypedDict):", "    f: list[%(r)s]"],
    ["@dataclass", "class SGC%(i)d:", "    f: %(r)s | None = None"],
    ["class SGP%(i)d(Protocol):", "    def pm(self, v: %(r)s) -> None: ..."],
    ["@overload", "def sgo%(i)d(v: int) -> %(r)s | None: ...", "@overload", "def sgo%(i)d(v: str) -> str: ...", "def sgo%(i)d(v: object) -> object:", "    return None"],
    ["class SGQ%(i)d:", "    @property", "    def p(self) -> %(r)s | None:", "        return None"],
    ["SGA%(i)d = dict[str, %(r)s]", "sga%(i)d: SGA%(i)d = {}"],
    ["class SGL%(i)d(list[%(r)s]): ..."],
    ["def sgn%(i)d() -> None:", "    def inner(v: %(r)s) -> None: ..."],
    ["class SGV%(i)d:", "    cv: ClassVar[list[%(r)s]] = []"],
    ["sgx%(i)d = cast('list[%(r)s]', [])"],
]


def make_consistent(st, u) -> None:
    """Choose the use's types so that it type-checks against the export AS IT IS NOW: projects start mostly
    clean, and it takes propagation (not the 're-check targets that had errors' shortcut) to notice later edits."""
    e = st["mods"].get(u["dep"], {}).get("exports", {}).get(u["name"])
    if not e:
        return
    k = e["kind"]
    if k == "reexport":
        src = st["mods"].get(e.get("src"), {}).get("exports", {}).get(e.get("srcname"))
        if not src or src["kind"] == "reexport":
            return
        e, k = src, src["kind"]
    if k == "cfn":
        u["a"], u["t"], u["form"] = e["p"], e["r"], u["form"] % 2
    elif k == "func":
        u["a"], u["t"], u["form"] = e["p"], e["r"], (u["form"] if not e.get("rcls") else 2) if e.get("rcls") else u["form"] % 2
        if e.get("pproto"):
            pe = st["mods"].get(e["pproto"][0], {}).get("exports", {}).get(e["pproto"][1])
            if pe and pe["kind"] == "proto":
                u["pp"], u["pr"] = pe["p"], pe["r"]
    elif k == "ovl":
        u["a"], u["t"], u["form"] = "int", e["r"], u["form"] % 2
    elif k == "cls":
        if u["form"] == 1:
            u["t"] = e["t"]
        else:
            u["a"], u["t"] = e["p"], e["r"]
    elif k in ("const", "enum"):
        u["t"] = e["t"]
    elif k in ("alias", "td"):
        u["a"] = e["t"]
    elif k == "box":
        u["t"] = u["a"]
    elif k == "proto":
        u["a"], u["t"] = e["p"], e["r"]
    elif k == "nt":
        u["a"], u["t"] = e["t"], e["t"]
    elif k == "dc":
        u["a"], u["t"] = e["t"], e["t2"]
    elif k == "deco":
        u["a"], u["t"] = e["p"], e["r"]


def initial(rnd: random.Random, nmods: int) -> dict:
    st = {"mods": {}, "order": [], "counter": 0}
    names = ["m%d" % i for i in range(nmods)]
    if nmods >= 5:
        names[-1] = "pkg.s0"
        names[-2] = "pkg"
    if nmods >= 7:
        names[-3] = "pkg.sub.mod"  # depth 3; pkg/sub/__init__.py is created empty by render()
    for n in names:
        st["mods"][n] = {"exports": {}, "uses": [], "imports": {}, "broken": False, "layout": "package" if n == "pkg" else "module", "stub": None}
        st["order"].append(n)
        for _ in range(rnd.randrange(2, 5)):
            add_export(st, rnd, n)
    for n in names:
        others = [o for o in names if o != n]
        for dep in rnd.sample(others, min(len(others), rnd.randrange(1, 3))):
            st["mods"][n]["imports"][dep] = rnd.choice(IMPORT_STYLES)
        for _ in range(rnd.randrange(2, 6)):
            add_use(st, rnd, n)
    return st


def fresh(st) -> int:
    st["counter"] += 1
    return st["counter"]


def add_export(st, rnd, mod, kind=None) -> None:
    k = kind or rnd.choice(EXPORT_KINDS)
    name = {"func": "f", "cls": "K", "const": "C", "alias": "A", "box": "Box", "proto": "P", "nt": "NT", "td": "TD", "dc": "DC", "enum": "E", "ovl": "ov", "deco": "deco", "reexport": "rx", "cfn": "cf"}[k] + str(fresh(st))
    e = new_export(rnd, k)
    if k == "reexport":
        # re-export some name of a module this one imports (if any)
        cands = [(d, n) for d in st["mods"][mod]["imports"] if d in st["mods"] for n, x in st["mods"][d]["exports"].items() if x["kind"] != "reexport"]
        if not cands:
            e["kind"] = "func"
            name = "f" + name[2:]
        else:
            e["src"], e["srcname"] = rnd.choice(cands)
    if e["kind"] == "func" and rnd.random() < 0.4:
        # return a class defined in an imported module: importers of THIS module then depend on that
        # third module only indirectly (through the inferred type)
        cands = [(d, n) for d in st["mods"][mod]["imports"] if d in st["mods"] for n, x in st["mods"][d]["exports"].items() if x["kind"] == "cls"]
        if cands:
            e["rcls"] = list(rnd.choice(cands))
    if e["kind"] == "func" and not e.get("rcls"):
        # ... or take, after two parameters of the SAME type, a parameter whose type is a protocol defined in an imported
        # module: callers that import only THIS module depend on that third module through a later item of the signature
        pc = [(d, n) for d in st["mods"][mod]["imports"] if d in st["mods"] and st["mods"][mod]["imports"][d] in ("import", "func") for n, x in st["mods"][d]["exports"].items() if x["kind"] == "proto"]
        if pc and random.Random(st["counter"] * 31 + 7).random() < 0.5:
            e["pproto"] = list(pc[random.Random(st["counter"]).randrange(len(pc))])
    st["mods"][mod]["exports"][name] = e


def add_use(st, rnd, mod) -> None:
    m = st["mods"][mod]
    cands = [(d, n) for d in m["imports"] if d in st["mods"] for n in st["mods"][d]["exports"]]
    if not cands:
        return
    d, n = rnd.choice(cands)
    u = new_use(rnd, fresh(st), d, n)
    if rnd.random() < 0.8:
        make_consistent(st, u)
    if st["mods"][d]["exports"][n]["kind"] == "cls":
        local = sorted(k for k, x in m["exports"].items() if x["kind"] == "cls")
        if local and rnd.random() < 0.5:
            # an instance of a LOCAL class where the imported class is expected: an error unless/until
            # the local class is made a subclass of it (edit `make_subclass`)
            u["other"] = rnd.choice(local)
    m["uses"].append(u)


# ---------------------------------------------------------------- rendering

def lit(t: str, ok: bool = True) -> str:
    if ok:
        return LIT[t]
    return "object()" if t != "None" else "1"


def ref(m, dep: str, name: str) -> str:
    style = m["imports"].get(dep)
    if style in ("from", "star"):
        return name
    if style == "frompkg" and "." in dep:
        return "%s.%s" % (dep.rsplit(".", 1)[1], name)
    return "%s.%s" % (dep, name)


def render_export(st, mod, name, e) -> list[str]:
    k = e["kind"]
    out = []
    if k == "func":
        rc = e.get("rcls")
        mm = st["mods"][mod]
        if rc and rc[0] in mm["imports"] and mm["imports"][rc[0]] != "tc" and rc[0] in st["mods"] and rc[1] in st["mods"][rc[0]]["exports"]:
            r = ref(mm, rc[0], rc[1])
            out += ["def %s(x: %s) -> %s:" % (name, e["p"], r), "    return %s()" % r]
        elif e.get("pproto") and e["pproto"][0] in mm["imports"] and mm["imports"][e["pproto"][0]] != "tc" and e["pproto"][0] in st["mods"] and e["pproto"][1] in st["mods"][e["pproto"][0]]["exports"] and not st["mods"][e["pproto"][0]]["exports"][e["pproto"][1]].get("hidden"):
            out += ["def %s(x: %s, x2: %s, q: %s) -> %s:" % (name, e["p"], e["p"], ref(mm, e["pproto"][0], e["pproto"][1]), e["r"]), "    return %s" % lit(e["r"], e["ok"])]
        else:
            out += ["def %s(x: %s) -> %s:" % (name, e["p"], e["r"]), "    return %s" % lit(e["r"], e["ok"])]
    elif k == "cfn":
        p2 = e["p"] if e["ok"] else ("bytes" if e["p"] != "bytes" else "str")
        out += ["if bool():", "    def %s(x: %s) -> %s:" % (name, e["p"], e["r"]), "        return %s" % lit(e["r"]), "else:", "    def %s(x: %s) -> %s:" % (name, p2, e["r"]), "        return %s" % lit(e["r"])]
    elif k == "cls":
        base = ""
        if e.get("base"):
            bd, bn = e["base"]
            if bd in st["mods"][mod]["imports"] and bd in st["mods"]:
                base = "(%s)" % ref(st["mods"][mod], bd, bn)
        out += ["class %s%s:" % (name, base), "    attr: %s = %s" % (e["t"], lit(e["t"], e["ok"])), "    def m(self, y: %s) -> %s:" % (e["p"], e["r"]), "        return %s" % lit(e["r"])]
        if e.get("inferred"):
            out += ["    def __init__(self) -> None:", "        self.inf = self.m(%s)" % lit(e["p"])]
    elif k == "const":
        out += ["%s: Final = %s" % (name, lit(e["t"]))]
    elif k == "alias":
        out += ["%s = list[%s]" % (name, e["t"])]
    elif k == "box" and e.get("bound"):
        # the class's own type variable with an upper bound (switched on and off by `toggle_bound`): type arguments
        # written in OTHER modules become invalid / valid again without those modules changing
        tv = "BT" + name
        out += ["%s = TypeVar('%s', bound=%s)" % (tv, tv, e["bound"]), "class %s(Generic[%s]):" % (name, tv), "    def __init__(self, v: %s) -> None:" % tv, "        self.v = v", "    def get(self) -> %s:" % tv, "        return self.v"]
    elif k == "box":
        out += ["class %s(Generic[T]):" % name, "    def __init__(self, v: T) -> None:", "        self.v = v", "    def get(self) -> T:", "        return self.v"]
    elif k == "proto":
        out += ["class %s(Protocol):" % name, "    def m(self, y: %s) -> %s: ..." % (e["p"], e["r"])]
    elif k == "nt":
        out += ["class %s(NamedTuple):" % name, "    x: %s" % e["t"], "    y: %s" % e["t2"]]
    elif k == "td":
        out += ["class %s(TypedDict):" % name, "    x: %s" % e["t"]]
    elif k == "dc":
        out += ["@dataclass", "class %s:" % name, "    x: %s" % e["t"], "    y: %s = %s" % (e["t2"], lit(e["t2"], e["ok"]))]
    elif k == "enum":
        out += ["class %s(Enum):" % name, "    A = %s" % lit(e["t"]), "    B = %s" % lit(e["t2"])]
    elif k == "ovl":
        out += ["@overload", "def %s(x: int) -> %s: ..." % (name, e["r"]), "@overload", "def %s(x: str) -> %s: ..." % (name, e["t"]), "def %s(x: object) -> object:" % name, "    return x"]
    elif k == "deco":
        out += ["def %s(f: Callable[[%s], %s]) -> Callable[[%s], %s]:" % (name, e["p"], e["r"], e["p"], e["t"]), "    def w(a: %s) -> %s:" % (e["p"], e["t"]), "        return %s" % lit(e["t"]), "    return w"]
    elif k == "reexport":
        m = st["mods"][mod]
        if e["src"] in m["imports"] and e["src"] in st["mods"]:
            out += ["%s = %s" % (name, ref(m, e["src"], e["srcname"]))]
        else:
            out += ["%s = 0" % name]
    return out


def func_has_proto_param(st, dep, e) -> bool:
    """Does the function export `e` of module `dep` currently render its third, protocol-typed parameter?"""
    mm = st["mods"].get(dep)
    pp = e.get("pproto")
    return bool(mm and pp and pp[0] in mm["imports"] and mm["imports"][pp[0]] != "tc" and pp[0] in st["mods"] and pp[1] in st["mods"][pp[0]]["exports"] and not st["mods"][pp[0]]["exports"][pp[1]].get("hidden") and not e.get("rcls"))


def render_use(st, mod, u) -> list[str]:
    m = st["mods"][mod]
    dep, name = u["dep"], u["name"]
    if dep not in m["imports"]:
        return []
    e = st["mods"].get(dep, {}).get("exports", {}).get(name) if dep in st["mods"] else None
    r = ref(m, dep, name)
    i = u["id"]
    kind = e["kind"] if e else "func"
    if kind == "reexport" and e:
        src = st["mods"].get(e["src"], {}).get("exports", {}).get(e["srcname"]) if e["src"] in st["mods"] else None
        kind = src["kind"] if src and src["kind"] != "reexport" else "const"
    tail = "  # type: ignore" if u.get("ignore") else ""
    out = []
    if u.get("sig") is not None and kind in ("cls", "nt", "dc", "td", "proto", "enum"):
        return [l % {"i": i, "r": r} + (tail if "%(r)s" in l else "") for l in SIG_WRAPS[u["sig"] % len(SIG_WRAPS)]]
    if kind == "cfn":
        out += ["u%d: %s = %s(%s)%s" % (i, u["t"], r, lit(u["a"]), tail)]
    elif kind == "func" and e and e.get("pproto") and func_has_proto_param(st, dep, e):
        pp, pr = u.get("pp", u["a"]), u.get("pr", u["t"])
        out += ["class IP%d:" % i, "    def m(self, y: %s) -> %s:" % (pp, pr), "        return %s" % lit(pr), "up%d: %s = %s(%s, %s, IP%d())%s" % (i, u["t"], r, lit(u["a"]), lit(u["a"]), i, tail)]
    elif kind in ("func", "ovl"):
        if u["form"] == 0:
            out += ["u%d: %s = %s(%s)%s" % (i, u["t"], r, lit(u["a"]), tail)]
        elif u["form"] == 1:
            out += ["j%d = %s(%s)%s" % (i, r, lit(u["a"]), tail), "k%d: %s = j%d" % (i, u["t"], i)]
        else:
            # attribute / method of the inferred result type (an indirect dependency when that type lives elsewhere)
            out += ["j%d = %s(%s)%s" % (i, r, lit(u["a"]), tail), "q%d: %s = j%d.attr" % (i, u["t"], i), "w%d: %s = j%d.m(%s)" % (i, u["t"], i, lit(u["a"]))]
    elif kind == "cls" and u.get("other") and u["other"] in m["exports"]:
        out += ["hh%d: %s = %s()%s" % (i, r, u["other"], tail), "def hf%d(a: %s) -> None: ..." % (i, r), "hf%d(%s())%s" % (i, u["other"], tail)]
    elif kind == "cls":
        if u["form"] == 0:
            out += ["class S%d(%s):%s" % (i, r, tail), "    def m(self, y: %s) -> %s:" % (u["a"], u["t"]), "        return %s" % lit(u["t"])]
        elif u["form"] == 1:
            out += ["a%d: %s = %s().attr%s" % (i, u["t"], r, tail)]
        else:
            out += ["def g%d(a: %s) -> %s:" % (i, r, u["t"]), "    return a.m(%s)%s" % (lit(u["a"]), tail)]
    elif kind == "const":
        out += ["c%d: %s = %s%s" % (i, u["t"], r, tail)]
    elif kind == "alias":
        out += ["al%d: %s = [%s]%s" % (i, r, lit(u["a"]), tail)]
    elif kind == "box" and u.get("ovl"):
        # the generic class with an explicit type argument in every part of an overloaded function, a method and a plain function
        ra = "%s[%s]" % (r, u["a"])
        out += ["@overload", "def bo%d(v: int) -> %s | None: ..." % (i, ra), "@overload", "def bo%d(v: str, w: %s | None = None) -> str: ..." % (i, ra), "def bo%d(v: object, w: %s | None = None) -> object:" % (i, ra), "    loc: %s | None = None" % ra, "    return loc",
                "class BC%d:" % i, "    @overload", "    def m(self, v: int) -> %s | None: ..." % ra, "    @overload", "    def m(self, v: str) -> str: ...", "    def m(self, v: object) -> object:", "        return None",
                "def bp%d(v: %s | None) -> None: ..." % (i, ra)]
    elif kind == "box":
        out += ["b%d: %s = %s(%s).get()%s" % (i, u["t"], r, lit(u["a"]), tail)]
    elif kind == "proto":
        out += ["class I%d:" % i, "    def m(self, y: %s) -> %s:" % (u["a"], u["t"]), "        return %s" % lit(u["t"]), "def up%d(p: %s) -> None: ..." % (i, r), "up%d(I%d())%s" % (i, i, tail)]
    elif kind == "nt":
        t2 = e["t2"] if (e and e.get("kind") == "nt") else u["t"]
        out += ["n%d: %s = %s(%s, %s).x%s" % (i, u["t"], r, lit(u["a"]), lit(t2), tail)]
    elif kind == "td":
        out += ["t%d: %s = {'x': %s}%s" % (i, r, lit(u["a"]), tail)]
    elif kind == "dc":
        out += ["d%d = %s(%s)%s" % (i, r, lit(u["a"]), tail), "dd%d: %s = d%d.y" % (i, u["t"], i)]
    elif kind == "enum":
        out += ["e%d: %s = %s.A.value%s" % (i, u["t"], r, tail)]
    elif kind == "deco":
        out += ["@%s%s" % (r, tail), "def df%d(x: %s) -> %s:" % (i, u["a"], u["t"]), "    return %s" % lit(u["t"]), "dv%d: %s = df%d(%s)" % (i, u["t"], i, lit(u["a"]))]
    return out


HEADER = ["from __future__ import annotations", "from typing import Final, Generic, TypeVar, Protocol, NamedTuple, TypedDict, Callable, overload, TYPE_CHECKING, ClassVar, cast", "from dataclasses import dataclass", "from enum import Enum", "from typing_extensions import TypeIs, TypeGuard", "T = TypeVar('T')"]


def render_module(st, mod, stub=False) -> str:
    m = st["mods"][mod]
    out = list(HEADER)
    if stub:
        # never byte-identical to the .py beside it (known finding: an identical .pyi appearing beside a module
        # is accepted as fresh by hash and the .py's cached diagnostics are replayed under the old path)
        out.insert(0, "# stub for %s" % mod)
    func_level, tc = [], []
    for miss in m.get("missing", []):
        out.append("import %s" % miss)  # a module that does not exist anywhere (a persistent import-not-found error)
    for dep, style in m["imports"].items():
        ign = "  # type: ignore" if dep in m.get("import_ignore", []) else ""
        if style == "frompkg" and "." in dep:
            out.append("from %s import %s%s" % (dep.rsplit(".", 1)[0], dep.rsplit(".", 1)[1], ign))
        elif style in ("import", "frompkg"):
            out.append("import %s%s" % (dep, ign))
        elif style == "from":
            names = sorted({u["name"] for u in m["uses"] if u["dep"] == dep} | {e["srcname"] for e in m["exports"].values() if e["kind"] == "reexport" and e.get("src") == dep} | {e["base"][1] for e in m["exports"].values() if e.get("base") and e["base"][0] == dep} | {e["rcls"][1] for e in m["exports"].values() if e.get("rcls") and e["rcls"][0] == dep})
            if names:
                out.append("from %s import %s" % (dep, ", ".join(names)))
        elif style == "star":
            out.append("from %s import *" % dep)
        elif style == "func":
            func_level.append(dep)
            out.append("import %s" % dep)  # also at top so that module-level uses resolve
        elif style == "tc":
            tc.append(dep)
    if tc:
        out.append("if TYPE_CHECKING:")
        out += ["    import %s" % d for d in tc]
    for name, e in m["exports"].items():
        if e.get("hidden"):
            continue  # the definition is gone for now (same name comes back when the op is applied again)
        out += render_export(st, mod, name, e)
    for u in m["uses"]:
        if m["imports"].get(u["dep"]) == "tc":
            # only annotations may mention a TYPE_CHECKING-only import
            e = st["mods"].get(u["dep"], {}).get("exports", {}).get(u["name"]) if u["dep"] in st["mods"] else None
            if e and e["kind"] in ("cls", "nt", "dc", "box", "proto", "td"):
                out += ["def tcu%d(a: %s.%s) -> None: ..." % (u["id"], u["dep"], u["name"])]
            continue
        out += render_use(st, mod, u)
    for dep in func_level:
        out += ["def fl_%s() -> None:" % dep.replace(".", "_"), "    import %s as loc" % dep, "    loc.__name__ + 1"]
    for _b in range(m.get("bulk") or 0):
        out.append("1 + ''")
    if m.get("all") is not None:
        out.append("__all__ = [%s]" % ", ".join(repr(n) for n in m["all"] if n in m["exports"] and not m["exports"][n].get("hidden")))
    if m["broken"]:
        out.append("def broken(:")
    if m.get("semblock"):
        out.append("continue")  # a blocker reported by semantic analysis, not by the parser
    return "\n".join(out) + "\n"


def path_of(mod: str, layout: str, ext: str = ".py") -> str:
    base = mod.replace(".", "/")
    return base + "/__init__" + ext if layout == "package" else base + ext


def render(st) -> dict:
    files = {}
    for mod, m in st["mods"].items():
        files[path_of(mod, m["layout"])] = render_module(st, mod)
        if m["stub"] is not None:
            st2 = copy.deepcopy(st)
            for en, patch in m["stub"].items():
                if en in st2["mods"][mod]["exports"]:
                    st2["mods"][mod]["exports"][en].update(patch)
            st2["mods"][mod]["broken"] = False
            files[path_of(mod, m["layout"], ".pyi")] = render_module(st2, mod, stub=True)
    # a parent package needs to exist for dotted modules
    for mod in list(st["mods"]):
        if "." in mod:
            parent = mod.rsplit(".", 1)[0]
            if parent not in st["mods"]:
                files.setdefault(parent.replace(".", "/") + "/__init__.py", "")
    return files


# ---------------------------------------------------------------- edits

EDIT_KINDS = ["change_export", "change_export", "change_export", "add_export", "remove_export", "add_use", "remove_use", "change_use", "add_import", "remove_import", "restyle_import",
              "toggle_broken", "toggle_semblock", "toggle_ignore", "toggle_unlisted", "toggle_import_ignore", "toggle_body_error", "toggle_body_error", "delete_module", "delete_module", "add_module", "rename_module", "to_package", "add_stub", "remove_stub", "set_base", "make_subclass", "fix_errors", "toggle_hidden", "toggle_all", "toggle_all_member"]


def draw_edit(st, rnd: random.Random) -> dict:
    mods = sorted(st["mods"])
    kind = rnd.choice(EDIT_KINDS)
    mod = rnd.choice(mods) if mods else None
    if kind == "toggle_semblock" and mods:
        # prefer a module whose exports are used elsewhere (so that the interface change that comes with the
        # blocker has dependants to propagate to)
        cands = sorted({u["dep"] for o, om in st["mods"].items() for u in om["uses"] if u["dep"] in st["mods"] and u["dep"] != o and u["name"] in st["mods"][u["dep"]]["exports"]})
        if cands:
            mod = rnd.choice(cands)
    op = {"op": kind, "mod": mod, "seed": rnd.randrange(2**30)}
    if mod is None:
        return {"op": "add_module", "mod": "m%d" % fresh(st), "seed": op["seed"]}
    m = st["mods"][mod]
    if kind in ("toggle_all", "toggle_all_member"):
        # prefer a module that somebody star-imports
        starred = sorted({d for o, om in st["mods"].items() for d, style in om["imports"].items() if style == "star" and d in st["mods"]})
        if starred:
            op["mod"] = mod = rnd.choice(starred)
            m = st["mods"][mod]
        if m["exports"]:
            used = sorted({u["name"] for o, om in st["mods"].items() if o != mod and om["imports"].get(mod) == "star" for u in om["uses"] if u["dep"] == mod and u["name"] in m["exports"]})
            op["name"] = rnd.choice(used or sorted(m["exports"]))
        return op
    if kind == "toggle_hidden":
        # prefer an export that another module uses
        used = sorted({(u["dep"], u["name"]) for o, om in st["mods"].items() for u in om["uses"] if u["dep"] in st["mods"] and u["dep"] != o and u["name"] in st["mods"][u["dep"]]["exports"]})
        if used:
            op["mod"], op["name"] = rnd.choice(used)
            return op
    if kind in ("change_export", "remove_export", "set_base", "toggle_hidden") and m["exports"]:
        op["name"] = rnd.choice(sorted(m["exports"]))
    if kind in ("remove_use", "change_use", "toggle_ignore") and m["uses"]:
        op["use"] = rnd.choice(m["uses"])["id"]
    if kind in ("add_import",):
        others = [o for o in mods if o != mod]
        if others:
            op["dep"] = rnd.choice(others)
            op["style"] = rnd.choice(IMPORT_STYLES)
    if kind in ("remove_import", "restyle_import", "toggle_import_ignore") and m["imports"]:
        op["dep"] = rnd.choice(sorted(m["imports"]))
        op["style"] = rnd.choice(IMPORT_STYLES)
    if kind == "add_module":
        op["mod"] = "m%d" % (100 + fresh(st))
    if kind == "add_module_acyclic":
        # sorts before every module (anybody may import it) or after every module (it may import anybody):
        # the import graph stays acyclic in the sorted-name order used by make_acyclic
        op["mod"] = "%s%d" % (rnd.choice(["a", "z"]), 100 + fresh(st))
    if kind == "add_import_acyclic":
        pairs = [(a, b) for a in mods for b in mods if b < a and b not in st["mods"][a]["imports"] and not a.startswith(b + ".") and not b.startswith(a + ".")]
        if pairs:
            op["mod"], op["dep"] = rnd.choice(pairs)
            op["style"] = rnd.choice(IMPORT_STYLES)
    if kind == "delete_module_flat":
        flat = [x for x in mods if "." not in x and not any(o.startswith(x + ".") for o in mods)]
        if flat:
            op["mod"] = rnd.choice(flat)
    if kind == "rename_module":
        op["new"] = "r%d" % (100 + fresh(st))
    return op


def apply_edit(st, op) -> bool:
    """Mutates st. Returns True if anything changed."""
    rnd = random.Random(op["seed"])
    kind, mod = op["op"], op["mod"]
    if kind == "add_module":
        if mod in st["mods"]:
            return False
        st["mods"][mod] = {"exports": {}, "uses": [], "imports": {}, "broken": False, "layout": "module", "stub": None}
        others = [o for o in sorted(st["mods"]) if o != mod]
        for _ in range(2):
            add_export(st, rnd, mod)
        if others:
            st["mods"][mod]["imports"][rnd.choice(others)] = rnd.choice(IMPORT_STYLES)
            add_use(st, rnd, mod)
            # somebody starts importing the new module
            imp = rnd.choice(others)
            st["mods"][imp]["imports"][mod] = rnd.choice(["import", "from"])
            add_use(st, rnd, imp)
        return True
    if kind == "add_module_acyclic":
        if mod in st["mods"]:
            return False
        others = sorted(st["mods"])
        st["mods"][mod] = {"exports": {}, "uses": [], "imports": {}, "broken": False, "layout": "module", "stub": None}
        for _ in range(2):
            add_export(st, rnd, mod)
        if others and mod.startswith("z"):
            st["mods"][mod]["imports"][rnd.choice(others)] = rnd.choice(["import", "from"])
            add_use(st, rnd, mod)
        elif others:
            imp = rnd.choice(others)
            st["mods"][imp]["imports"][mod] = rnd.choice(["import", "from"])
            add_use(st, rnd, imp)
        return True
    if mod not in st["mods"]:
        return False
    m = st["mods"][mod]
    before = json.dumps(st, sort_keys=True)
    if kind == "add_import_acyclic":
        if op.get("dep") in st["mods"] and op["dep"] < mod and op["dep"] not in m["imports"]:
            m["imports"][op["dep"]] = op["style"]
            add_use(st, rnd, mod)
    elif kind == "delete_module_flat":
        if "." not in mod and not any(o.startswith(mod + ".") for o in st["mods"]) and len(st["mods"]) > 2:
            del st["mods"][mod]
    elif kind == "change_export" and op.get("name") in m["exports"]:
        e = m["exports"][op["name"]]
        field = rnd.choice(["p", "r", "t", "t2", "ok"])
        e[field] = (not e["ok"]) if field == "ok" else rnd.choice(TYPES)
    elif kind == "add_export":
        add_export(st, rnd, mod)
    elif kind == "remove_export" and op.get("name") in m["exports"]:
        del m["exports"][op["name"]]
    elif kind == "add_sig_uses" and op.get("dep") in m["imports"] and op.get("dep") in st["mods"]:
        # every annotation-only position at once, for one class of another module
        for k in range(len(SIG_WRAPS)):
            u = new_use(rnd, fresh(st), op["dep"], op["name"])
            u["sig"] = k
            m["uses"].append(u)
    elif kind == "add_box_ovl_use" and op.get("dep") in m["imports"] and op.get("dep") in st["mods"] and op.get("name") in st["mods"][op["dep"]]["exports"]:
        u = new_use(rnd, fresh(st), op["dep"], op["name"])
        u.pop("sig", None)
        u["ovl"] = True
        u["a"] = "str"
        m["uses"].append(u)
    elif kind == "toggle_bound" and op.get("name") in m["exports"] and m["exports"][op["name"]]["kind"] == "box":
        e = m["exports"][op["name"]]
        e["bound"] = None if e.get("bound") else ["int", "float", "bytes"][op["seed"] % 3]
    elif kind == "ensure_cls":
        if not any(x["kind"] == "cls" and not x.get("hidden") and not x.get("base") for x in m["exports"].values()):
            add_export(st, rnd, mod, "cls")
            for x in m["exports"].values():
                x.setdefault("ok", True)
    elif kind == "ensure_kind":
        if not any(x["kind"] == op["kind"] and not x.get("hidden") for x in m["exports"].values()):
            add_export(st, rnd, mod, op["kind"])
    elif kind == "add_pproto_func" and op.get("dep") in m["imports"] and op.get("dep") in st["mods"] and op.get("name") in st["mods"][op["dep"]]["exports"]:
        before_names = set(m["exports"])
        add_export(st, rnd, mod, "func")
        for n_ in set(m["exports"]) - before_names:
            e_ = m["exports"][n_]
            e_.pop("rcls", None)
            e_["pproto"] = [op["dep"], op["name"]]
            e_["ok"] = True
    elif kind == "add_use_of" and op.get("dep") in m["imports"] and op.get("dep") in st["mods"] and op.get("name") in st["mods"][op["dep"]]["exports"]:
        u = new_use(rnd, fresh(st), op["dep"], op["name"])
        u.pop("sig", None)
        make_consistent(st, u)
        m["uses"].append(u)
    elif kind == "change_sig" and op.get("name") in m["exports"]:
        e_ = m["exports"][op["name"]]
        e_["r"] = TYPES[(TYPES.index(e_["r"]) + 1 + op["seed"] % 3) % len(TYPES)]
    elif kind == "clear_blockers":
        for om in st["mods"].values():
            om["broken"] = False
            om["semblock"] = False
    elif kind == "add_other_use" and op.get("dep") in m["imports"] and op.get("dep") in st["mods"] and op.get("other") in m["exports"]:
        u = new_use(rnd, fresh(st), op["dep"], op["name"])
        u.pop("sig", None)
        u["other"] = op["other"]
        m["uses"].append(u)
    elif kind == "remove_missing_import":
        m["missing"] = []
    elif kind == "toggle_bulk_errors":
        # more diagnostics than mypy's many-errors threshold (200) in one module
        m["bulk"] = 0 if m.get("bulk") else int(op.get("n", 210))
    elif kind == "add_missing_import":
        m.setdefault("missing", [])
        if op.get("name", "zz_missing") not in m["missing"]:
            m["missing"].append(op.get("name", "zz_missing"))
    elif kind == "toggle_all":
        m["all"] = sorted(m["exports"]) if m.get("all") is None else None
    elif kind == "toggle_all_member" and op.get("name") in m["exports"]:
        # only __all__ changes; the definition stays as it is
        cur = sorted(m["exports"]) if m.get("all") is None else list(m["all"])
        if op["name"] in cur:
            cur.remove(op["name"])
        else:
            cur.append(op["name"])
        m["all"] = sorted(cur)
    elif kind == "toggle_hidden" and op.get("name") in m["exports"]:
        # the definition disappears / comes back unchanged (dependants must notice both)
        e = m["exports"][op["name"]]
        e["hidden"] = not e.get("hidden")
    elif kind == "add_use":
        add_use(st, rnd, mod)
    elif kind == "remove_use":
        m["uses"] = [u for u in m["uses"] if u["id"] != op.get("use")]
    elif kind == "change_use":
        for u in m["uses"]:
            if u["id"] == op.get("use"):
                u[rnd.choice(["t", "a"])] = rnd.choice(TYPES)
                u["form"] = rnd.randrange(3)
    elif kind == "toggle_ignore":
        for u in m["uses"]:
            if u["id"] == op.get("use"):
                u["ignore"] = not u.get("ignore")
    elif kind == "add_import" and op.get("dep") in st["mods"] and op["dep"] != mod:
        m["imports"][op["dep"]] = op["style"]
        add_use(st, rnd, mod)
    elif kind == "remove_import" and op.get("dep") in m["imports"]:
        del m["imports"][op["dep"]]
    elif kind == "restyle_import" and op.get("dep") in m["imports"]:
        m["imports"][op["dep"]] = op["style"]
    elif kind == "change_used_export":
        # change the interface of an export that some OTHER module uses (so the edit has dependants)
        used = sorted({u["name"] for o, om in st["mods"].items() if o != mod for u in om["uses"] if u["dep"] == mod and u["name"] in m["exports"]})
        if used:
            e = m["exports"][rnd.choice(used)]
            for fld in ("p", "r", "t", "t2"):
                e[fld] = rnd.choice([t for t in TYPES if t != e[fld]])
    elif kind == "toggle_body_error":
        # body-only edit: an error appears/disappears inside a definition, the interface stays the same
        cands = sorted(k for k, x in m["exports"].items() if x["kind"] in ("func", "cls", "dc"))
        if cands:
            e = m["exports"][rnd.choice(cands)]
            e["ok"] = not e["ok"]
    elif kind == "toggle_unlisted":
        # stop / start naming the module on the command line (it is then reached by import following only)
        if any(mod in om["imports"] for o, om in st["mods"].items() if o != mod):
            m["unlisted"] = not m.get("unlisted")
    elif kind == "toggle_import_ignore" and m["imports"]:
        dep = op.get("dep") if op.get("dep") in m["imports"] else sorted(m["imports"])[0]
        ig = set(m.get("import_ignore", []))
        ig.symmetric_difference_update({dep})
        m["import_ignore"] = sorted(ig)
    elif kind == "toggle_broken":
        m["broken"] = not m["broken"]
    elif kind == "toggle_semblock":
        m["semblock"] = not m.get("semblock")
        if m["semblock"] and m["exports"]:
            # the same edit also changes an interface, so dependants must be re-checked once the blocker is gone;
            # prefer an export that other modules actually use
            used = sorted({u["name"] for o, om in st["mods"].items() if o != mod for u in om["uses"] if u["dep"] == mod and u["name"] in m["exports"]})
            e = m["exports"][rnd.choice(used or sorted(m["exports"]))]
            for fld in ("p", "r", "t"):
                e[fld] = rnd.choice([t for t in TYPES if t != e[fld]])
    elif kind == "delete_module" and len(st["mods"]) > 2:
        if any(o.startswith(mod + ".") for o in st["mods"]):
            return False
        del st["mods"][mod]
    elif kind == "rename_module" and len(st["mods"]) > 1 and "." not in mod and not any(o.startswith(mod + ".") for o in st["mods"]):
        st["mods"][op["new"]] = st["mods"].pop(mod)
        # half of the importers follow the rename
        for o, om in st["mods"].items():
            if mod in om["imports"] and rnd.random() < 0.5:
                om["imports"][op["new"]] = om["imports"].pop(mod)
                for u in om["uses"]:
                    if u["dep"] == mod:
                        u["dep"] = op["new"]
    elif kind == "to_package":
        m["layout"] = "module" if m["layout"] == "package" and not any(o.startswith(mod + ".") for o in st["mods"]) else "package"
    elif kind == "add_stub" and m["exports"]:
        patch = {}
        for en in rnd.sample(sorted(m["exports"]), min(2, len(m["exports"]))):
            patch[en] = {rnd.choice(["p", "r", "t"]): rnd.choice(TYPES)}
        m["stub"] = patch
    elif kind == "remove_stub":
        m["stub"] = None
    elif kind == "set_base" and op.get("name") in m["exports"] and m["exports"][op["name"]]["kind"] == "cls":
        cands = [(d, n) for d in m["imports"] if d in st["mods"] for n, x in st["mods"][d]["exports"].items() if x["kind"] == "cls"]
        m["exports"][op["name"]]["base"] = list(rnd.choice(cands)) if cands and rnd.random() < 0.8 else None
    elif kind == "make_subclass":
        cands = [u for u in m["uses"] if u.get("other") in m["exports"] and u["dep"] in m["imports"]]
        if cands:
            u = rnd.choice(cands)
            if op.get("use") is not None:
                u = ([c for c in cands if c["id"] == op["use"]] or [u])[0]
            e = m["exports"][u["other"]]
            e["base"] = None if e.get("base") == [u["dep"], u["name"]] else [u["dep"], u["name"]]
    elif kind == "fix_errors":
        for e in m["exports"].values():
            e["ok"] = True
        m["broken"] = False
        m["semblock"] = False
    return json.dumps(st, sort_keys=True) != before


PROFILES = {
    # batch-mode histories that cannot close an import cycle (no add_import / add_module / restyle to star)
    "acyclic-batch": {"edits": ["change_export", "change_export", "change_used_export", "add_export", "remove_export", "add_use", "remove_use", "change_use", "remove_import", "toggle_broken", "toggle_semblock",
                                "toggle_ignore", "toggle_body_error", "toggle_unlisted", "toggle_import_ignore", "delete_module", "rename_module", "to_package", "add_stub", "remove_stub", "set_base",
                                "make_subclass", "fix_errors", "toggle_hidden"],
                      "styles": ["import", "import", "from", "func", "tc", "frompkg"], "kinds": EXPORT_KINDS},
    # daemon-friendly fragments, enabled construct by construct (C03 saturation protocol)
    "basic": {"edits": ["change_export", "change_export", "add_export", "remove_export", "add_use", "remove_use", "change_use", "toggle_ignore", "toggle_semblock", "toggle_body_error", "fix_errors", "set_base", "make_subclass", "make_subclass"],
              "styles": ["import", "import", "from"], "kinds": ["func", "func", "cls", "cls", "const", "alias", "box", "nt", "dc", "enum", "ovl"]},
    "structure": {"edits": ["change_export", "change_export", "add_export", "remove_export", "add_use", "remove_use", "change_use", "remove_import", "restyle_import", "toggle_broken", "toggle_semblock", "change_used_export",
                            "toggle_ignore", "toggle_body_error", "set_base", "make_subclass", "make_subclass", "fix_errors", "toggle_hidden"],
                  "styles": ["import", "import", "from", "func", "tc"], "kinds": ["func", "func", "cls", "cls", "const", "alias", "box", "proto", "nt", "td", "dc", "enum", "ovl", "deco"]},
}


# star imports and __all__ on top of "structure"
PROFILES["structure-star"] = {"edits": PROFILES["structure"]["edits"] + ["toggle_all", "toggle_all_member", "toggle_all_member"],
                              "styles": PROFILES["structure"]["styles"] + ["star", "star"], "kinds": PROFILES["structure"]["kinds"]}


# files appear and disappear and import edges are added, all without ever closing an import cycle
PROFILES["structure-files"] = {"edits": PROFILES["structure"]["edits"] + ["add_module_acyclic", "add_module_acyclic", "add_import_acyclic", "add_import_acyclic", "delete_module_flat", "delete_module_flat"],
                               "styles": PROFILES["structure"]["styles"], "kinds": PROFILES["structure"]["kinds"]}


def history(seed: int, nmods: int, nsteps: int, profile: str | None = None):
    """Deterministic (initial state, [ops]) from a seed; every op changes the rendered project."""
    global EDIT_KINDS, IMPORT_STYLES, EXPORT_KINDS
    saved = (EDIT_KINDS, IMPORT_STYLES, EXPORT_KINDS)
    if profile:
        pr = PROFILES[profile]
        EDIT_KINDS, IMPORT_STYLES, EXPORT_KINDS = pr["edits"], pr["styles"], pr["kinds"]
    try:
        return _history(seed, nmods, nsteps)
    finally:
        EDIT_KINDS, IMPORT_STYLES, EXPORT_KINDS = saved


def _history(seed: int, nmods: int, nsteps: int):
    rnd = random.Random(seed)
    st0 = initial(rnd, nmods)
    st = copy.deepcopy(st0)
    ops = []
    tries = 0
    while len(ops) < nsteps and tries < nsteps * 20:
        tries += 1
        op = draw_edit(st, rnd)
        before = render(st)
        st2 = copy.deepcopy(st)
        if apply_edit(st2, op) and render(st2) != before:
            st = st2
            ops.append(op)
    return st0, ops


def graph_shape(st) -> str:
    return ";".join("%s->%s" % (m, ",".join(sorted(st["mods"][m]["imports"]))) for m in sorted(st["mods"]))


def unlisted_paths(st) -> list:
    """Files of modules that are NOT named on the command line (reached through imports only)."""
    out = []
    for mod, m in st["mods"].items():
        if m.get("unlisted") and any(mod in om["imports"] and not om.get("unlisted") for o, om in st["mods"].items() if o != mod):
            out.append(path_of(mod, m["layout"]))
            if m["stub"] is not None:
                out.append(path_of(mod, m["layout"], ".pyi"))
    return out
