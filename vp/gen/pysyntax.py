"""G3-lite: syntax-rich programs built from a snippet library + layout mutations + token corruptions.

Snippets cover statement/expression forms the corpus under-samples (match, PEP 695, f-string nesting,
decorators, async, try-star, walrus, star-expressions, slices, comprehensions, global/nonlocal, lambda
defaults, chained comparisons, conditional imports, class keywords).  Many contain deliberate type errors so
that both parsers have diagnostics (with positions) to agree on.  `$N` is replaced by a unique number.
"""
from __future__ import annotations

import io
import tokenize

from hypothesis import strategies as st

# (min minor version, text)
SNIPPETS = [
    (9, 'x$N: int = "s"\n'),
    (9, 'def f$N(a: int, /, b: str = "", *args: int, c: bytes, d: float = 1.0, **kw: str) -> int:\n    return a + b\n'),
    (9, 'class C$N:\n    x: int = 0\n    def m(self, v: str) -> int:\n        return self.x + v\n'),
    (9, 'async def g$N(xs: list[int]) -> str:\n    async for q in xs:\n        pass\n    async with xs as z:\n        pass\n    return await xs\n'),
    (9, 'def dec$N(f):\n    return f\n@dec$N\n@(lambda f: f)\ndef h$N() -> int:\n    return "x"\n'),
    (10, 'def m$N(v: int | str | tuple[int, str] | None) -> int:\n    match v:\n        case int(n) if n > 0:\n            return n + ""\n        case str() as s:\n            return s\n        case (a, b):\n            return a + b\n        case None | 0:\n            return 0\n        case _:\n            return v\n'),
    (10, 'def mm$N(d: dict[str, int], l: list[int]) -> None:\n    match d:\n        case {"k": 1, **rest}:\n            rest + 1\n    match l:\n        case [1, *others, 2]:\n            others + 1\n        case [] | [_]:\n            pass\n'),
    (12, 'type A$N[T] = list[T] | None\ndef p$N[T: int, *Ts, **P](x: T) -> T:\n    return "s"\nclass G$N[T, U]:\n    def get(self) -> T:\n        return 1\n'),
    (12, 'def fs$N(a: int, b: str) -> int:\n    return f"{a!r:>{b}} {f"{a + b}"} {{}} {a=}"\n'),
    (9, 'def fs2$N(a: int, b: str) -> int:\n    return f"{a!r:>10} {b:{a}} {{}} {a=}" + 1\n'),
    (9, 'def w$N(xs: list[int]) -> str:\n    if (n := len(xs)) > 1:\n        return n\n    while (m := n - 1):\n        n = m\n    return [y := 1, y ** 2]\n'),
    (11, 'def ts$N() -> None:\n    try:\n        pass\n    except* ValueError as eg:\n        eg + 1\n    except* (TypeError, KeyError):\n        pass\n'),
    (9, 'def tr$N() -> int:\n    try:\n        return 1\n    except (ValueError, TypeError) as e:\n        return e\n    except Exception:\n        raise RuntimeError("x") from None\n    else:\n        return ""\n    finally:\n        print()\n'),
    (9, 'def st$N(a: list[int], *b: int, **c: str) -> None:\n    first, *rest = a\n    print(*a, *b, **c)\n    x = [*a, *b]\n    y = {**c, "k": 1}\n    z = a[1:2], a[::2], a[:, 1], a[...]\n    first + ""\n'),
    (9, 'def co$N(xs: list[int]) -> None:\n    a = [x for x in xs if x if x > 1]\n    b = {x: y for x in xs for y in xs}\n    c = {x async for x in xs}\n    d = (x + "" for x in xs)\n    e = [[y for y in range(x)] for x in xs]\n'),
    (9, 'g$N = 0\ndef gl$N() -> None:\n    global g$N\n    g$N = ""\n    def inner() -> None:\n        nonlocal_v = 1\n        def inner2() -> None:\n            nonlocal nonlocal_v\n            nonlocal_v = ""\n'),
    (9, 'lam$N = lambda a, b=1, *c, d, e=2, **f: a + b\nlam$N(1, d="")\nlam$N()\n'),
    (9, 'def ch$N(a: int, b: str) -> bool:\n    return 1 < a <= 3 != b is not None in [1]\n'),
    (9, 'import sys\nif sys.version_info >= (3, 11):\n    v$N: int = ""\nelse:\n    v$N: str = 1\nif sys.platform == "win32":\n    w$N: int = ""\n'),
    (9, 'class K$N(dict, metaclass=type, foo=1):\n    __slots__ = ("a",)\n    def __init__(self) -> None:\n        self.b = 1\n'),
    (9, 'def de$N(a: list[int]) -> None:\n    del a[0], a\n    assert a, "msg"\n    assert (a, "msg")\n    pass; pass\n    x: int\n    x = y = ""\n    x += ""\n'),
    (9, 'from typing import overload\n@overload\ndef ov$N(a: int) -> int: ...\n@overload\ndef ov$N(a: str) -> str: ...\ndef ov$N(a): return a\nov$N(b"")\n'),
    (9, 'def wi$N() -> None:\n    with open("f") as a, open("g") as b:\n        a + b\n    with (open("f") as c, open("g") as d,):\n        c + 1\n'),
    (9, 'def cond$N(a: int) -> str:\n    return "x" if a else 1 if not a else None\n'),
    (9, 'def un$N(a: int, b: str) -> None:\n    -b\n    ~b\n    not b\n    +a\n    a ** b\n    a @ b\n    a // b\n    a << b\n    a if b else a\n'),
    (9, 'def yi$N():\n    x = yield 1\n    y = yield from [1]\n    return x + ""\n'),
    (9, 'def nu$N() -> None:\n    a: str = 0x1F + 0o7 + 0b1 + 1_000 + 1e3 + 1j\n    b: int = "a" "b" \'c\'\n    c: int = b"x" rb"y"\n    d: int = r"\\d"\n'),
    (9, 'class P$N:\n    @property\n    def v(self) -> int: return 1\n    @v.setter\n    def v(self, x: int) -> None: ...\n    @staticmethod\n    def s() -> None: ...\n    @classmethod\n    def c(cls) -> "P$N": return 1\nP$N().v = ""\n'),
    (9, 'def nested$N() -> None:\n    def a() -> None:\n        def b() -> None:\n            class L:\n                def m(self) -> int:\n                    return ""\n    for i in range(3):\n        for j in "ab":\n            i + j\n        else:\n            continue\n    else:\n        pass\n'),
    (9, 'from typing import TypeVar, Generic\nT$N = TypeVar("T$N")\nclass Box$N(Generic[T$N]):\n    def __init__(self, v: T$N) -> None: self.v = v\nBox$N[int]("")\nx$N = Box$N(1).v + ""\n'),
    (9, 'u$N = "caf\\u00e9" + 1\nd\u00e9f$N = 1\nd\u00e9f$N + ""\n'),
    (9, 'def ret$N(a: int) -> None:\n    return a\ndef noret$N() -> int:\n    pass\nret$N(1, 2)\nnoret$N(x=1)\nundefined$N\n'),
    (10, 'def pm$N(x: object) -> None:\n    match x:\n        case {"a": [1, 2, {"b": _}]} | {"c": (1 | 2) as q}:\n            q + ""\n        case str(real=r) | int(r):\n            pass\n'),
    (9, 'import sys\nfrom typing import overload, TYPE_CHECKING\nif sys.version_info >= (3, 8):\n    @overload\n    def vo$N(a: int) -> int: ...\n    @overload\n    def vo$N(a: str) -> str: ...\ndef vo$N(a): return a\nif TYPE_CHECKING:\n    if sys.platform != "x":\n        @overload\n        def vp$N(a: int) -> int: ...\n        @overload\n        def vp$N(a: bytes) -> str: ...\ndef vp$N(a): return a\nvo$N(b"")\n'),
    (9, 'class PF$N:\n    name: int = 0\npf$N = PF$N()\nnn$N = 3\ns$N = "{.nme}".format(pf$N)\nt$N = "{[0]}".format(nn$N)\nu$N = "{0.name.real:>{1}} {x!r}".format(pf$N, "w", x=1) + 1\n'),
    (9, 'class Outer$N:\n    if True:\n        def only$N(self) -> int:\n            return ""\n    class Inner$N:\n        x: int = ""\n        def m(self) -> None:\n            def deep() -> int:\n                return ""\n'),
    (13, 'def td$N[T = int](x: T) -> T:\n    return x\nclass D$N[*Ts = *tuple[int, ...]]: ...\n'),
]


def render(ids_and_snips) -> str:
    out = []
    for i, (mv, text) in ids_and_snips:
        out.append(text.replace("$N", str(i)))
    return "\n".join(out)


def programs(max_minor: int = 14):
    """Strategy: (source, min_minor)."""
    import sys

    # the default parser is the HOST python's ast module: syntax newer than the host cannot be parsed by it
    # (listed finding) and is not generated
    elig = [s for s in SNIPPETS if s[0] <= max_minor and s[0] <= sys.version_info[1]]
    return st.lists(st.sampled_from(elig), min_size=2, max_size=7).map(lambda ss: (render(list(enumerate(ss))), max(s[0] for s in ss)))


# ---- layout mutations (preserve meaning)

def _tokens(src: str):
    return list(tokenize.generate_tokens(io.StringIO(src).readline))


def layout_mutations():
    return st.lists(st.sampled_from(["crlf", "comments", "blank", "formfeed", "bom", "cookie", "continuation", "parens", "trailing_ws", "tabs_blank", "no_final_newline", "semicolon_tail"]), max_size=4, unique=True)


def apply_layout(src: str, muts, rnd) -> str:
    lines = src.split("\n")
    for m in muts:
        if m == "comments":
            lines = [l + ("  # c\u00f6mment" if l.strip() and not l.rstrip().endswith(("\\", '"', "'")) and rnd.random() < 0.3 else "") for l in lines]
        elif m == "blank":
            out = []
            for l in lines:
                out.append(l)
                if rnd.random() < 0.15 and not l.rstrip().endswith(("\\", ",", "(")):
                    out.append("")
            lines = out
        elif m == "tabs_blank":
            lines = [("\t" if not l.strip() and rnd.random() < 0.5 else l) for l in lines]
        elif m == "trailing_ws":
            lines = [l + ("   " if l.strip() and rnd.random() < 0.3 and not l.rstrip().endswith("\\") else "") for l in lines]
        elif m == "formfeed":
            lines = ["\x0c" + l if (l.startswith(("def ", "class ")) and rnd.random() < 0.5) else l for l in lines]
        elif m == "continuation":
            out = []
            for l in lines:
                if " + " in l and '"' not in l and "'" not in l and "#" not in l and rnd.random() < 0.6:
                    ind = len(l) - len(l.lstrip())
                    a, b = l.split(" + ", 1)
                    out.append(a + " + \\")
                    out.append(" " * (ind + 4) + b)
                else:
                    out.append(l)
            lines = out
        elif m == "parens":
            out = []
            for l in lines:
                s = l.strip()
                if s.startswith("return ") and "#" not in s and not s.endswith(("\\", ":")) and "yield" not in s and rnd.random() < 0.6:
                    ind = l[: len(l) - len(l.lstrip())]
                    out.append(ind + "return (" + s[7:] + ")")
                else:
                    out.append(l)
            lines = out
        elif m == "semicolon_tail":
            lines = [l + ";" if (l.strip() in ("pass", "print()") and rnd.random() < 0.7) else l for l in lines]
    text = "\n".join(lines)
    if "no_final_newline" in muts:
        text = text.rstrip("\n")
    if "cookie" in muts:
        text = "# -*- coding: utf-8 -*-\n" + text
    if "crlf" in muts:
        text = text.replace("\n", "\r\n")
    if "bom" in muts:
        text = "\ufeff" + text
    return text


CORRUPT_TOKENS = ["(", ")", ":", ",", "=", "def", "class", "return", "[", "]", "{", "}", "lambda", "*", "**", "->", "@", "if", "else", "import", "\"", "'''", "0x", "1e", "\\", "match", "case", "type", "async", "await", "yield", ".", ";", "$", "?", "!", "\t", "    "]


def corrupt(src: str, rnd) -> str:
    """Single-token corruption (delete / duplicate / replace / insert) on the token stream."""
    try:
        toks = [t for t in _tokens(src) if t.type not in (tokenize.ENDMARKER,)]
    except (tokenize.TokenError, IndentationError, SyntaxError):
        pos = rnd.randrange(max(1, len(src)))
        return src[:pos] + rnd.choice(CORRUPT_TOKENS) + src[pos:]
    cand = [i for i, t in enumerate(toks) if t.string.strip()]
    if not cand:
        return src + "("
    i = rnd.choice(cand)
    t = toks[i]
    lines = src.split("\n")
    (r, c), (er, ec) = t.start, t.end
    if r != er or r - 1 >= len(lines):
        return src + rnd.choice(CORRUPT_TOKENS)
    line = lines[r - 1]
    op = rnd.randrange(4)
    if op == 0:
        new = line[:c] + line[ec:]
    elif op == 1:
        new = line[:ec] + " " + t.string + line[ec:]
    elif op == 2:
        new = line[:c] + rnd.choice(CORRUPT_TOKENS) + line[ec:]
    else:
        new = line[:c] + rnd.choice(CORRUPT_TOKENS) + " " + line[c:]
    lines[r - 1] = new
    return "\n".join(lines)
