"""Parsing and normal forms of mypy diagnostics."""
from __future__ import annotations

import re
from typing import NamedTuple


class Diag(NamedTuple):
    file: str
    line: int
    col: int | None
    end_line: int | None
    end_col: int | None
    severity: str
    msg: str
    code: str | None


_RE = re.compile(
    r"^(?P<file>(?:[A-Za-z]:)?[^:\n]*?):(?P<line>\d+):(?:(?P<col>\d+):)?(?:(?P<el>\d+):(?P<ec>\d+):)? (?P<sev>error|note|warning): (?P<msg>.*?)(?:  \[(?P<code>[a-z0-9\-]+)\])?$"
)
_NOLINE = re.compile(r"^(?P<file>[^:\n]+): (?P<sev>error|note|warning): (?P<msg>.*?)(?:  \[(?P<code>[a-z0-9\-]+)\])?$")

ADVISORY_NOTES = (
    "See https://mypy.readthedocs.io/en/stable/running_mypy.html#missing-imports",
    "(Using --follow-imports=error, module not passed on command line)",
    "(Using --follow-imports=error, submodule passed on command line)",
    "(Skipping most remaining errors due to unresolved imports or missing stubs; fix these first)",
    "Hint: \"python3 -m pip install",
    "(or run \"mypy --install-types\" to install all missing stub packages)",
    "(This note and the previous one",
)


def parse(out: str) -> tuple[list[Diag], list[str]]:
    """Returns (diagnostics, unparsed lines)."""
    ds, rest = [], []
    for l in out.splitlines():
        if not l.strip():
            continue
        m = _RE.match(l)
        if m:
            g = m.groupdict()
            ds.append(Diag(g["file"], int(g["line"]), int(g["col"]) if g["col"] else None, int(g["el"]) if g["el"] else None, int(g["ec"]) if g["ec"] else None, g["sev"], g["msg"], g["code"]))
            continue
        m = _NOLINE.match(l)
        if m:
            g = m.groupdict()
            ds.append(Diag(g["file"], 0, None, None, None, g["sev"], g["msg"], g["code"]))
            continue
        rest.append(l)
    return ds, rest


def is_advisory(d: Diag) -> bool:
    return d.severity == "note" and d.msg.startswith(ADVISORY_NOTES)


def normal_form(ds: list[Diag]):
    """C02/C03/C07 normal form: per-file ordered list of (line-group multisets) + location-free advisory multiset."""
    per_file: dict[str, list] = {}
    adv = []
    for d in ds:
        if is_advisory(d):
            adv.append(d.msg)
            continue
        per_file.setdefault(d.file, []).append(d)
    nf = {}
    for f, lst in per_file.items():
        groups = []
        for d in lst:
            key = d.line
            item = (d.col, d.severity, d.msg, d.code)
            if groups and groups[-1][0] == key:
                groups[-1][1].append(item)
            else:
                groups.append((key, [item]))
        nf[f] = [(k, sorted(v, key=repr)) for k, v in groups]
    return nf, sorted(adv)


def exit_status_consistent(status: int, ds: list[Diag], rest: list[str]) -> bool:
    """Exit 0 iff no error-severity message (2 is decided by blockers, not visible here)."""
    has_err = any(d.severity == "error" for d in ds)
    if status == 0:
        return not has_err
    return status in (1, 2) and (has_err or bool(rest))
