"""CLI: /venv/bin/python -m vp.check <ID> --tier quick|thorough [--replay FILE] [--seed N]

exit 0: property held on everything explored (KNOWN-FINDING lines possible)
exit 1: VIOLATION property=<id> replay=<path>
exit 2: harness error (never a verdict)
"""
from __future__ import annotations

import argparse
import importlib
import json
import os
import sys
import traceback


def main() -> int:
    ap = argparse.ArgumentParser()
    ap.add_argument("pid")
    ap.add_argument("--tier", default=os.environ.get("VERIF_TIER", "quick"), choices=["quick", "thorough"])
    ap.add_argument("--seed", type=int, default=None)
    ap.add_argument("--replay", default=None)
    args = ap.parse_args()

    repo = os.environ.get("VERIF_REPO", "/repo")
    need_path = repo != "/repo" and repo not in os.environ.get("PYTHONPATH", "").split(os.pathsep)
    if (os.environ.get("PYTHONHASHSEED") != "0" and not os.environ.get("VERIF_KEEP_HASHSEED")) or need_path:
        env = dict(os.environ, PYTHONHASHSEED="0")
        if need_path:  # a scratch copy of the tree under test precedes the editable install
            env["PYTHONPATH"] = repo + (os.pathsep + env["PYTHONPATH"] if env.get("PYTHONPATH") else "")
        os.execve(sys.executable, [sys.executable, "-m", "vp.check"] + sys.argv[1:], env)

    os.environ.setdefault("PYTHON_MYPY_VERIF", "1")
    seed = args.seed if args.seed is not None else int(os.environ.get("VERIF_SEED", "1") or "1")
    from vp.common import Run, VERIF

    os.chdir(VERIF)
    pid = args.pid.upper()
    try:
        mod = importlib.import_module("vp.props.%s" % pid.lower())
    except ImportError:
        traceback.print_exc()
        return 2
    run = Run(pid, args.tier, seed, getattr(mod, "LEVEL", "exploration"))
    try:
        if args.replay:
            with open(args.replay) as f:
                body = json.load(f)
            ok = mod.replay(run, body.get("case", body))
            # a replay re-evaluates one saved case: exit 1 iff it still violates
            run.rule = "replay of %s" % args.replay
            run.count(0)
            for v in run.violations:
                pass
            verdict = "still violates" if not ok else ("reproduces a listed known finding" if run.excluded_known else "holds")
            print("REPLAY %s: %s" % (args.replay, verdict))
            return 0 if ok else 1
        # committed regression replays (sensitivity witnesses and fixed findings) run first
        rdir = os.path.join(VERIF, "replays", pid)
        if os.path.isdir(rdir) and hasattr(mod, "replay"):
            for name in sorted(os.listdir(rdir)):
                if name.startswith("viol-") or not name.endswith(".json"):
                    continue
                with open(os.path.join(rdir, name)) as f:
                    body = json.load(f)
                mod.replay(run, body.get("case", body), origin=name)
                run.label("replay_files_run")
        mod.run(run)
        return run.finish()
    except SystemExit:
        raise
    except BaseException:
        traceback.print_exc()
        print("HARNESS-ERROR: unexpected exception in check %s" % pid, file=sys.stderr)
        return 2


if __name__ == "__main__":
    sys.exit(main())
