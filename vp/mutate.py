"""Structure-aware mutators over Python programs (token/statement level, deterministic given `rnd`).

delete / duplicate / swap statements, rename or cross-wire identifiers, replace a type
expression by another one from the same file, truncate, splice two programs, make
definitions cyclic, single-token corruption.
"""
from __future__ import annotations

import ast
import io
import tokenize

from vp.gen.pysyntax import corrupt


def _stmts(src: str):
    """[(start_line, end_line)] of every statement (1-based, inclusive), any nesting depth."""
    try:
        tree = ast.parse(src)
    except (SyntaxError, ValueError, RecursionError):
        return None, []
    spans = []
    for node in ast.walk(tree):
        if isinstance(node, ast.stmt) and hasattr(node, "end_lineno"):
            start = node.lineno
            if getattr(node, "decorator_list", None):
                start = min([start] + [d.lineno for d in node.decorator_list])
            spans.append((start, node.end_lineno))
    return tree, sorted(set(spans))


def _names(src: str):
    out = []
    try:
        for t in tokenize.generate_tokens(io.StringIO(src).readline):
            if t.type == tokenize.NAME and t.start[0] == t.end[0]:
                out.append((t.start[0], t.start[1], t.end[1], t.string))
    except (tokenize.TokenError, IndentationError, SyntaxError):
        pass
    return out


KEYWORDS = {"def", "class", "return", "if", "else", "elif", "for", "while", "in", "is", "not", "and", "or", "import", "from", "as", "pass", "None", "True", "False", "try", "except", "finally", "with", "lambda", "yield", "raise", "global", "nonlocal", "del", "assert", "async", "await", "break", "continue", "match", "case", "type", "self"}


def _annotation_spans(tree):
    spans = []
    for node in ast.walk(tree):
        anns = []
        if isinstance(node, (ast.FunctionDef, ast.AsyncFunctionDef)):
            if node.returns is not None:
                anns.append(node.returns)
            for a in node.args.posonlyargs + node.args.args + node.args.kwonlyargs + [node.args.vararg, node.args.kwarg]:
                if a is not None and a.annotation is not None:
                    anns.append(a.annotation)
        elif isinstance(node, ast.AnnAssign):
            anns.append(node.annotation)
        elif isinstance(node, ast.ClassDef):
            anns.extend(node.bases)
        for a in anns:
            if a.lineno == a.end_lineno:
                spans.append((a.lineno, a.col_offset, a.end_col_offset))
    return spans


MUTATIONS = ["delete", "duplicate", "swap", "rename", "crosswire", "retype", "truncate", "cyclic", "cyclic_typed", "token", "indent", "dedent_def", "semblock"]


def mutate_once(src: str, rnd, other: str | None = None) -> tuple[str, str]:
    """Returns (mutated source, mutation name)."""
    kind = rnd.choice(MUTATIONS + (["splice"] if other else []))
    lines = src.split("\n")
    tree, spans = _stmts(src)
    if kind in ("delete", "duplicate", "swap", "indent") and spans:
        a, b = rnd.choice(spans)
        block = lines[a - 1 : b]
        if kind == "delete":
            new = lines[: a - 1] + lines[b:]
        elif kind == "duplicate":
            new = lines[:b] + block + lines[b:]
        elif kind == "indent":
            new = lines[: a - 1] + ["    " + l for l in block] + lines[b:]
        else:
            c, d = rnd.choice(spans)
            if c > b:
                new = lines[: a - 1] + lines[c - 1 : d] + lines[b : c - 1] + block + lines[d:]
            elif a > d:
                new = lines[: c - 1] + block + lines[d : a - 1] + lines[c - 1 : d] + lines[b:]
            else:
                new = lines[:b] + block + lines[b:]
        return "\n".join(new), kind
    if kind in ("rename", "crosswire"):
        names = [n for n in _names(src) if n[3] not in KEYWORDS]
        if names:
            ln, c0, c1, s = rnd.choice(names)
            if kind == "rename":
                repl = s + "_x"
            else:
                repl = rnd.choice(names)[3]
            l = lines[ln - 1]
            lines[ln - 1] = l[:c0] + repl + l[c1:]
            return "\n".join(lines), kind
    if kind == "retype" and tree is not None:
        spans_a = _annotation_spans(tree)
        if len(spans_a) >= 2:
            (l1, a0, a1), (l2, b0, b1) = rnd.sample(spans_a, 2)
            text2 = lines[l2 - 1].encode()[b0:b1].decode(errors="ignore")
            row = lines[l1 - 1].encode()
            lines[l1 - 1] = (row[:a0] + text2.encode() + row[a1:]).decode(errors="ignore")
            return "\n".join(lines), kind
    if kind == "truncate" and len(lines) > 2:
        k = rnd.randrange(1, len(lines))
        cut = lines[:k]
        if rnd.random() < 0.5 and cut[-1]:
            cut[-1] = cut[-1][: rnd.randrange(len(cut[-1]) + 1)]
        return "\n".join(cut) + "\n", kind
    if kind == "cyclic" and tree is not None:
        classes = [n for n in ast.walk(tree) if isinstance(n, ast.ClassDef)]
        funcs = [n for n in ast.walk(tree) if isinstance(n, ast.FunctionDef)]
        assigns = [n for n in tree.body if isinstance(n, ast.Assign) and len(n.targets) == 1 and isinstance(n.targets[0], ast.Name)]
        choice = rnd.randrange(3)
        if choice == 0 and len(classes) >= 1:
            c1 = rnd.choice(classes)
            c2 = rnd.choice(classes)
            l = lines[c1.lineno - 1]
            if "(" in l and l.rstrip().endswith(":"):
                lines[c1.lineno - 1] = l.replace("(", "(" + c2.name + ", ", 1)
            elif l.rstrip().endswith(":"):
                lines[c1.lineno - 1] = l.rstrip()[:-1] + "(" + c2.name + "):"
            return "\n".join(lines), "cyclic-bases"
        if choice == 1 and len(assigns) >= 2:
            a1, a2 = rnd.sample(assigns, 2)
            lines.append("%s = %s" % (a1.targets[0].id, a2.targets[0].id))
            lines.insert(0, "%s = %s" % (a2.targets[0].id, a1.targets[0].id))
            return "\n".join(lines), "cyclic-alias"
        if funcs and classes:
            f = rnd.choice(funcs)
            c = rnd.choice(classes)
            lines.insert(f.lineno - 1 if not f.decorator_list else f.decorator_list[0].lineno - 1, " " * f.col_offset + "@" + c.name)
            return "\n".join(lines), "cyclic-decorator"
    if kind == "cyclic_typed":
        # an unresolvable cycle of plain assignments whose names are also used in type positions
        names = [n[3] for n in _names(src) if n[3] not in KEYWORDS and n[3][0].isupper()] or ["Cyc"]
        a = rnd.choice(names) + "_cy"
        b = rnd.choice(names) + "_cz"
        form = rnd.randrange(4)
        extra = ["%s = %s" % (a, b), "%s = %s" % (b, a)]
        if form == 0:
            extra += ["cyv: %s" % a]
        elif form == 1:
            extra += ["def cyf() -> %s: ..." % b]
        elif form == 2:
            extra = ["from typing import List", "%s = List[%s]" % (a, b), "%s = %s" % (b, a), "cyv: %s" % a]
        else:
            extra += ["class CyC(%s): pass" % a, "cyv: CyC"]
        pos = rnd.randrange(len(lines) + 1) if rnd.random() < 0.5 else len(lines)
        return "\n".join(lines[:pos] + extra + lines[pos:]), kind
    if kind == "semblock":
        # a blocking error found by semantic analysis (not the parser)
        stmt = rnd.choice(["break", "continue", "yield 1", "return 1", "nonlocal zz_q", "await zz_q"])
        pos = rnd.randrange(len(lines) + 1)
        return "\n".join(lines[:pos] + [stmt] + lines[pos:]), kind
    if kind == "dedent_def":
        idx = [i for i, l in enumerate(lines) if l.startswith("    ") and l.strip().startswith(("def ", "class ", "return", "x", "self"))]
        if idx:
            i = rnd.choice(idx)
            lines[i] = lines[i][4:]
            return "\n".join(lines), kind
    if kind == "splice" and other:
        _, sp2 = _stmts(other)
        o = other.split("\n")
        top1 = [s for s in spans] or [(1, len(lines))]
        a, b = rnd.choice(top1)
        if sp2:
            c, d = rnd.choice(sp2)
            return "\n".join(lines[:b] + o[c - 1 : d] + lines[b:]), kind
        return "\n".join(lines[:b] + o), kind
    return corrupt(src, rnd), "token"
