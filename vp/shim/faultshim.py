"""Fault injection at the cache-store boundary (C04), from outside the repository.

VP_FAULT is a JSON object:
  role:        "main" | "worker" | "any"    which process(es) the fault applies to
  worker_index: int (optional)               only that worker (order of first store op)
  kill_before: k | null                      os._exit(137) before store operation number k (0-based)
  fail_writes: [i, ...]                      the i-th WRITE operations return False without writing
  log:         path                          every store operation is appended as a JSON line
Operations counted: write, remove, commit, commit_path of both metadata stores.
"""
from __future__ import annotations

import json
import os
import sys

_STATE = {"n": 0, "w": 0}


def role() -> str:
    argv = getattr(sys, "orig_argv", sys.argv)
    return "worker" if any("build_worker" in a for a in argv) else "main"


def install() -> None:
    spec = json.loads(os.environ["VP_FAULT"])
    myrole = role()
    applies = spec.get("role", "any") in ("any", myrole)
    import mypy.metastore as MS

    logpath = spec.get("log")

    def log(op, name):
        if logpath:
            with open(logpath, "a") as f:
                f.write(json.dumps({"role": myrole, "pid": os.getpid(), "i": _STATE["n"], "op": op, "name": name}) + "\n")

    def before(op, name):
        """Returns True if this op must be turned into a failure."""
        i = _STATE["n"]
        if applies and spec.get("kill_before") is not None and i == spec["kill_before"]:
            log("KILL-BEFORE-" + op, name)
            os._exit(137)
        log(op, name)
        _STATE["n"] += 1
        fail = False
        if op == "write":
            if applies and _STATE["w"] in (spec.get("fail_writes") or []):
                fail = True
            _STATE["w"] += 1
        return fail

    def wrap_cls(cls):
        o_write, o_remove, o_commit = cls.write, cls.remove, cls.commit
        o_commit_path = cls.commit_path

        def write(self, name, data, mtime=None):
            if before("write", name):
                return False
            return o_write(self, name, data, mtime)

        def remove(self, name):
            before("remove", name)
            return o_remove(self, name)

        def commit(self):
            before("commit", "")
            return o_commit(self)

        def commit_path(self, name):
            before("commit_path", name)
            return o_commit_path(self, name)

        cls.write, cls.remove, cls.commit, cls.commit_path = write, remove, commit, commit_path

    wrap_cls(MS.FilesystemMetadataStore)
    wrap_cls(MS.SqliteMetadataStore)
