# Loaded by every python process that has this directory on PYTHONPATH (main mypy process and
# parallel build workers alike). Does nothing unless PYTHON_MYPY_VERIF=1 and a shim is requested.
import os

if os.environ.get("PYTHON_MYPY_VERIF") == "1":
    if os.environ.get("VP_FAULT"):
        try:
            from vp.shim import faultshim

            faultshim.install()
        except Exception as e:  # never let the shim change behaviour by failing loudly
            import sys

            sys.stderr.write("VP-SHIM-ERROR %r\n" % (e,))
    if os.environ.get("VP_SCHED"):
        try:
            from vp.shim import schedshim

            schedshim.install()
        except Exception as e:
            import sys

            sys.stderr.write("VP-SHIM-ERROR %r\n" % (e,))
