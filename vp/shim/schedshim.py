"""Schedule perturbation for the parallel build (C07), from outside the repository.

VP_SCHED is a JSON object:
  seed:        int       all delays / choices derive from it (pure function of seed and SCC contents)
  max_delay_ms: int      per-(SCC, phase) sleep drawn in [0, max_delay_ms]
  free:        "min" | "max" | "rand" | "default"   which free worker receives the next batch
  batch:       "one" | "all" | "default"            SCCs per batch (1, everything queued, or mypy's policy)
  reorder:     bool      permute the order in which ready worker replies are consumed
  log:         path      workers append {pid, phase, mods} per processed SCC; the coordinator appends batches
"""
from __future__ import annotations

import hashlib
import json
import os
import random
import sys
import time


def _role() -> str:
    argv = getattr(sys, "orig_argv", sys.argv)
    return "worker" if any("build_worker" in a for a in argv) else "main"


def _h(*parts) -> int:
    return int(hashlib.sha1("|".join(str(p) for p in parts).encode()).hexdigest()[:12], 16)


def install() -> None:
    spec = json.loads(os.environ["VP_SCHED"])
    seed = spec.get("seed", 0)
    maxd = spec.get("max_delay_ms", 0)
    logpath = spec.get("log")

    def log(rec):
        if logpath:
            rec["pid"] = os.getpid()
            with open(logpath, "a") as f:
                f.write(json.dumps(rec) + "\n")

    def delay(key):
        if maxd:
            time.sleep((_h(seed, key) % (maxd + 1)) / 1000.0)

    if _role() == "worker":
        import mypy.build as B
        import mypy.build_worker.worker as W

        o_int, o_impl = W.process_stale_scc_interface, W.process_stale_scc_implementation

        def iface(graph, scc, manager, *a, **kw):
            mods = sorted(scc.mod_ids)
            delay(("iface", mods))
            res = o_int(graph, scc, manager, *a, **kw)
            log({"role": "worker", "phase": "interface", "mods": mods, "deps": sorted(scc.deps) if hasattr(scc, "deps") else [], "scc": scc.id})
            delay(("iface-after", mods))
            return res

        def impl(graph, ids, manager, *a, **kw):
            delay(("impl", sorted(ids)))
            res = o_impl(graph, ids, manager, *a, **kw)
            log({"role": "worker", "phase": "implementation", "mods": sorted(ids)})
            return res

        W.process_stale_scc_interface = iface
        W.process_stale_scc_implementation = impl
        B.process_stale_scc_interface = iface
        B.process_stale_scc_implementation = impl
        return

    # coordinator
    import mypy.build as B

    rnd = random.Random(seed)

    class PolicySet(set):
        def pop(self):
            items = sorted(self)
            pol = spec.get("free", "default")
            if pol == "min":
                x = items[0]
            elif pol == "max":
                x = items[-1]
            elif pol == "rand":
                x = rnd.choice(items)
            else:
                return set.pop(self)
            self.discard(x)
            return x

    o_submit = B.BuildManager.submit_to_workers
    o_maxb = B.BuildManager.max_batch_size

    def submit(self, graph, sccs=None):
        if not isinstance(self.free_workers, PolicySet):
            self.free_workers = PolicySet(self.free_workers)
        return o_submit(self, graph, sccs)

    def maxb(self):
        pol = spec.get("batch", "default")
        if pol == "one":
            return 0
        if pol == "all":
            return 10**9
        return o_maxb(self)

    B.BuildManager.submit_to_workers = submit
    B.BuildManager.max_batch_size = maxb
    if spec.get("reorder"):
        o_ready = B.ready_to_read

        def ready(conns, timeout=None):
            r = list(o_ready(conns, timeout))
            if len(r) > 1:
                rnd.shuffle(r)
            return r

        B.ready_to_read = ready
