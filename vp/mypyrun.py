"""Running mypy: in-process (fast, inside pool workers) and in fresh subprocesses.

Rules baked in (see DESIGN.md 1.3): redirect real stdout/stderr, gc.collect()
after each run, stdin=/dev/null, unique scratch dirs, one cache dir per option set.
"""
from __future__ import annotations

import contextlib
import gc
import io
import os
import shutil
import subprocess
import sys
import tempfile
import time

from vp.common import PY, REPO, WORK

if REPO != "/repo" and REPO not in sys.path:
    sys.path.insert(0, REPO)


def scratch(prefix: str = "c") -> str:
    os.makedirs(WORK, exist_ok=True)
    return tempfile.mkdtemp(prefix=prefix + "-", dir=WORK)


def rmtree(p: str) -> None:
    shutil.rmtree(p, ignore_errors=True)


def child_env(extra: dict | None = None) -> dict:
    env = dict(os.environ)
    env.setdefault("PYTHONHASHSEED", "0")
    env["MYPY_FORCE_COLOR"] = "0"
    env.pop("MYPYPATH", None)
    if REPO != "/repo":
        env["PYTHONPATH"] = REPO + (os.pathsep + env["PYTHONPATH"] if env.get("PYTHONPATH") else "")
    if extra:
        env.update(extra)
    return env


def run_inproc(args: list[str], cwd: str | None = None) -> tuple[str, str, int]:
    """mypy.api.run with everything captured. Returns (stdout, stderr, status).

    Internal errors are printed to the real sys.stderr, so both real streams are
    redirected around the call; whatever lands there is appended to stderr.
    An escaping exception is reported as status -1 with the traceback in stderr.
    """
    import mypy.api

    real_out, real_err = io.StringIO(), io.StringIO()
    old = os.getcwd()
    if cwd:
        os.chdir(cwd)
    try:
        with contextlib.redirect_stdout(real_out), contextlib.redirect_stderr(real_err):
            try:
                out, err, status = mypy.api.run(args)
            except SystemExit as e:  # pragma: no cover
                out, err, status = "", "SystemExit %r" % (e.code,), int(e.code) if isinstance(e.code, int) else 2
            except BaseException:
                import traceback

                out, err, status = "", "ESCAPED-EXCEPTION\n" + traceback.format_exc(), -1
    finally:
        if cwd:
            os.chdir(old)
    gc.collect()
    return out + real_out.getvalue(), err + real_err.getvalue(), status


def run_sub(args: list[str], cwd: str | None = None, env: dict | None = None, timeout: float = 300, module: str = "mypy") -> tuple[str, str, int]:
    """Fresh `python -m mypy` process."""
    try:
        p = subprocess.run(
            [PY, "-m", module] + args,
            cwd=cwd,
            env=child_env(env),
            stdin=subprocess.DEVNULL,
            stdout=subprocess.PIPE,
            stderr=subprocess.PIPE,
            timeout=timeout,
            text=True,
            errors="replace",
        )
        return p.stdout, p.stderr, p.returncode
    except subprocess.TimeoutExpired as e:
        return (e.stdout or b"").decode(errors="replace") if isinstance(e.stdout, bytes) else (e.stdout or ""), "TIMEOUT", -9


def write_files(root: str, files: dict[str, str], mtime: float | None = None) -> None:
    for rel, text in files.items():
        p = os.path.join(root, rel)
        os.makedirs(os.path.dirname(p) or root, exist_ok=True)
        with open(p, "w", encoding="utf-8", newline="") as f:
            f.write(text)
        if mtime is not None:
            os.utime(p, (mtime, mtime))


BASE_MTIME = 1_700_000_000.0

_TREE_ID: str | None = None


def tree_id() -> str:
    """Identifies the state of the code under test, so seed caches built by one
    tree state are never reused for another (a mutant could change what is cached)."""
    global _TREE_ID
    if _TREE_ID is None:
        import hashlib

        h = hashlib.sha1()
        try:
            head = subprocess.run(["git", "-C", REPO, "rev-parse", "HEAD"], capture_output=True, text=True, timeout=30)
            diff = subprocess.run(["git", "-C", REPO, "diff", "HEAD", "--", "mypy", "mypyc"], capture_output=True, timeout=60)
            if head.returncode != 0:
                raise OSError
            h.update(head.stdout.encode() + diff.stdout)
        except (OSError, subprocess.SubprocessError):
            for d, _, fs in sorted(os.walk(os.path.join(REPO, "mypy"))):
                for f in sorted(fs):
                    if f.endswith(".py"):
                        st = os.stat(os.path.join(d, f))
                        h.update(("%s %d %d" % (f, st.st_size, st.st_mtime_ns)).encode())
        _TREE_ID = h.hexdigest()[:12]
    return _TREE_ID


class SeedCache:
    """A cache directory holding only typeshed modules for one option set.

    Built once per (name) under WORK by a truly cold run of a tiny program, then
    copied (cheap hard-link-free copytree) to seed per-case cache dirs.
    """

    def __init__(self, name: str, flags: list[str]):
        self.name, self.flags = name, flags
        self.path = os.path.join(WORK, "seedcache-" + tree_id(), name)

    def ensure(self) -> str:
        marker = os.path.join(self.path, ".ok")
        if os.path.exists(marker):
            return self.path
        os.makedirs(os.path.dirname(self.path), exist_ok=True)
        tmp = tempfile.mkdtemp(prefix=self.name + "-", dir=os.path.dirname(self.path))
        src = os.path.join(tmp, "src")
        os.makedirs(src)
        with open(os.path.join(src, "seed_mod.py"), "w") as f:
            f.write("import typing, sys, os, collections, dataclasses, enum, abc\n")
        out, err, st = run_sub(self.flags + ["--cache-dir", os.path.join(tmp, "cache"), "seed_mod.py"], cwd=src)
        if st != 0:
            raise RuntimeError("seed cache build failed: %s %s" % (out, err))
        shutil.rmtree(src)
        with open(os.path.join(tmp, "cache", ".ok"), "w") as f:
            f.write("ok")
        try:
            os.rename(os.path.join(tmp, "cache"), self.path)
        except OSError:
            pass  # another process won the race
        shutil.rmtree(tmp, ignore_errors=True)
        return self.path

    def copy_to(self, dest: str) -> str:
        """Seed `dest`; if the flag set itself is rejected by mypy (conflicting flags of a corpus case)
        there is nothing to seed and the case simply runs cold."""
        try:
            src = self.ensure()
        except RuntimeError:
            os.makedirs(dest, exist_ok=True)
            return dest
        shutil.copytree(src, dest, dirs_exist_ok=True)
        return dest


def seed_for(flags: list[str], prefix: str = "f") -> SeedCache:
    """Seed cache keyed by the exact flag list (per-module options are part of every module's
    cache key, so one typeshed seed per option set)."""
    import hashlib

    h = hashlib.sha1("\0".join(flags).encode()).hexdigest()[:12]
    return SeedCache("%s-%s" % (prefix, h), list(flags))


def build_fixture_mode(root: str, flags: list[str], cache_dir: str, targets: list[str]) -> tuple[int, list[str], str]:
    """Run a build the way the repository's own check tests do: options from the flag list, the
    lightweight lib-stub builtins instead of the full typeshed (a cold build costs ~0.1 s).
    Fixture files (builtins.pyi, typing.pyi ...) must already be in `root`.
    Returns (status like main(): 0/1/2, message lines, stderr text)."""
    import mypy.build
    from mypy.errors import CompileError
    from mypy.main import process_options

    real_out, real_err = io.StringIO(), io.StringIO()
    old = os.getcwd()
    os.chdir(root)
    try:
        with contextlib.redirect_stdout(real_out), contextlib.redirect_stderr(real_err):
            try:
                sources, options = process_options(list(flags) + ["--cache-dir", cache_dir] + targets, stdout=real_out, stderr=real_err)
            except SystemExit as e:
                return -2, [], "process_options exit %s: %s" % (e.code, real_err.getvalue()[-400:])
            options.use_builtins_fixtures = True
            options.show_traceback = True
            try:
                res = mypy.build.build(sources=sources, options=options, alt_lib_path=root)
                msgs = res.errors
                blocker = False
            except CompileError as e:
                msgs = e.messages
                blocker = True
            except SystemExit as e:
                return 2, [], "SystemExit %s\n%s" % (e.code, real_err.getvalue()[-3000:] + real_out.getvalue()[-1000:])
            except BaseException:
                import traceback

                return -1, [], "ESCAPED-EXCEPTION\n" + traceback.format_exc()
    finally:
        os.chdir(old)
        gc.collect()
    n_err = sum(1 for m in msgs if ": error:" in m)
    status = 2 if blocker else (1 if n_err else 0)
    return status, list(msgs), real_err.getvalue()[-2000:]


def install_fixtures(root: str, fixtures: dict) -> None:
    base = os.path.join(REPO, "test-data", "unit")
    for target, rel in fixtures.items():
        src = os.path.join(base, rel)
        if os.path.exists(src):
            shutil.copyfile(src, os.path.join(root, target))
